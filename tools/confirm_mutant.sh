#!/bin/bash
# usage: confirm_mutant.sh <prop> <idx> <srcdir(out/mI)> [pkgdir]
# Confirms in a scratch worktree: demo passes without the patch, fails with it, full suite passes with it.
prop=$1; idx=$2; src=$3; pkg=${4:-.}
export GOFLAGS=-mod=mod GOPROXY=off GOSUMDB=off GOTOOLCHAIN=local
# every go test runs in its own network namespace: the suite uses fixed TCP ports and other
# suites may be running on this machine
NS="unshare -n sh -c"
gt() { unshare -n sh -c "ip link set lo up; $*"; }
dst=/verif/seeded/$prop-${SEED_PREFIX:-m}$idx
mkdir -p $dst
wt=$(mktemp -d /tmp/cfwt.XXXXXX)
git -C /repo worktree add -q --detach $wt HEAD || exit 9
cp $src/demo_test.go $wt/$pkg/zz_demo_test.go
cd $wt
base=$(gt "go test $DEMO_FLAGS -vet=off -count=1 -run '^TestMutantDemo\$' -timeout 5m ./$pkg" 2>&1 | tail -3 | tr '\n' ' ')
git apply $src/patch.diff || { echo "patch failed"; cd /; git -C /repo worktree remove --force $wt; exit 9; }
mut=$(gt "go test $DEMO_FLAGS -vet=off -count=1 -run '^TestMutantDemo\$' -timeout 5m ./$pkg" 2>&1 | tail -4 | tr '\n' ' ')
rm -f $wt/$pkg/zz_demo_test.go
suite=$(gt "go test -vet=off -count=1 -timeout 4m ./..." 2>&1 | tail -4 | tr '\n' ' ')
case "$suite" in *FAIL*) sleep 30; suite2=$(gt "go test -vet=off -count=1 -timeout 4m ./..." 2>&1 | tail -4 | tr '\n' ' '); suite="first run: $suite ; re-run: $suite2";; esac
cd /
git -C /repo worktree remove --force $wt
cp $src/patch.diff $dst/patch.diff; cp $src/demo_test.go $dst/demo_test.go; cp $src/notes.txt $dst/agent_notes.txt 2>/dev/null
python3 - "$prop" "$idx" "$base" "$mut" "$suite" "$dst" <<'PY'
import json,sys
prop,idx,base,mut,suite,dst=sys.argv[1:7]
notes=open(dst+'/agent_notes.txt').read() if __import__('os').path.exists(dst+'/agent_notes.txt') else ''
valid = base.strip().startswith('ok') and 'FAIL' in mut and 'FAIL' not in suite.split('re-run:')[-1] and 'ok' in suite
json.dump({"property":prop,"mutant":int(idx),"valid_seeded_change":valid,"needs_to_manifest":notes[:1500],
 "confirmed":{"demo_without_patch":base,"demo_with_patch":mut,"full_suite_with_patch":suite,
 "commands":["go test -vet=off -count=1 -run '^TestMutantDemo$' ./<pkg> (scratch worktree of /repo HEAD, with and without patch.diff)","go test -vet=off -count=1 -timeout 4m ./... (with patch.diff)"]},
 "detected_by":"see DESIGN.md section 10 (filled in after the check run)"}, open(dst+'/meta.json','w'), indent=1)
PY
echo "$prop ${SEED_PREFIX:-m}$idx valid=$(python3 -c "import json;print(json.load(open('$dst/meta.json'))['valid_seeded_change'])") | base: $base | mut: $mut | suite: $suite"
