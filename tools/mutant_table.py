#!/usr/bin/env python3
# Fills the MUTANTS block of DESIGN.md from seeded/*/meta.json and seeded/*/detection_*.txt
import json, glob, os, re
rows = []
for d in sorted(glob.glob('/verif/seeded/*')):
    mp = os.path.join(d, 'meta.json')
    if not os.path.exists(mp):
        continue
    m = json.load(open(mp))
    name = os.path.basename(d)
    notes = m.get('needs_to_manifest', '').strip().split('\n')
    what = ' '.join(notes[:2])[:230].replace('|', '/')
    valid = m.get('valid_seeded_change')
    dets = []
    for f in sorted(glob.glob(os.path.join(d, 'detection_*.txt'))):
        cp = os.path.basename(f)[len('detection_'):-4]
        t = open(f).read()
        det = re.search(r'detected: (\w+)', t)
        lab = re.search(r'label=(\S+)', t)
        dets.append('%s: %s%s' % (cp, det.group(1) if det else '?', (' (' + lab.group(1) + ')') if lab and det and det.group(1) == 'yes' else ''))
    rows.append('| %s | %s | %s | %s |' % (name, 'yes' if valid else ('no — rejected' if valid is False else '?'), what, '; '.join(dets) if dets else 'not run'))
tbl = '| seeded change | confirmed valid | what it changes / needs | detected by (quick check) |\n|---|---|---|---|\n' + '\n'.join(rows)
s = open('/verif/DESIGN.md').read()
a = s.index('<!-- MUTANTS-BEGIN -->') + len('<!-- MUTANTS-BEGIN -->')
b = s.index('<!-- MUTANTS-END -->')
extra = ''
if os.path.exists('/verif/seeded/NOTES.md'):
    extra = '\n' + open('/verif/seeded/NOTES.md').read()
s = s[:a] + '\n' + tbl + '\n' + extra + s[b:]
open('/verif/DESIGN.md', 'w').write(s)
print(len(rows), 'rows')
