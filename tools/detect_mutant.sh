#!/bin/bash
# usage: detect_mutant.sh <prop> <idx> [check-prop] [gosym args...]
# Runs the quick check of <check-prop> (default <prop>) against seeded/<prop>-m<idx>/patch.diff in a
# scratch worktree and records the outcome in seeded/<prop>-m<idx>/detection.txt
prop=$1; idx=$2; cp=${3:-$1}; shift; shift; [ $# -gt 0 ] && shift
dir=/verif/seeded/$prop-${SEED_PREFIX:-m}$idx
[ -f $dir/patch.diff ] || { echo "no $dir/patch.diff"; exit 9; }
s=$(date +%s)
out=$(/verif/tools/run_mutant.sh $dir/patch.diff $cp "$@" 2>&1)
e=$(date +%s)
rc=$(echo "$out" | grep -a -o "exit=[0-9]*" | tail -1)
det=no; echo "$out" | grep -a -q "^VIOLATION property=$cp" && det=yes
{
  echo "check: gosym check -p $cp -tier quick $* (scratch worktree of /repo HEAD $(git -C /repo log --format=%h -1) + patch.diff)"
  echo "detected: $det ($rc, $((e-s)) s)"
  echo "$out" | grep -a -E "VIOLATION|harness=|KNOWN-FINDING|INCONCLUSIVE|BROKEN|^property|patch does not" | awk '!s[$0]++' | cut -c1-400 | head -12
} > $dir/detection_$cp.txt
echo "$prop m$idx check=$cp detected=$det $rc $((e-s))s"
