#!/bin/bash
# usage: run_mutant.sh <patch.diff> <prop> [gosym args...]
# Applies the patch in a scratch worktree of /repo (never /repo itself) and runs the check against it.
patch=$1; prop=$2; shift 2
wt=$(mktemp -d /tmp/mutwt.XXXXXX)
git -C /repo worktree add -q --detach $wt HEAD || exit 9
( cd $wt && git apply "$patch" ) || { echo "patch does not apply"; git -C /repo worktree remove --force $wt; exit 9; }
cd /verif
VERIF_REPO=$wt timeout 1500 ${GOSYM:-./bin/gosym} check -p $prop -tier quick "$@" 2>&1 | grep -a -E "VIOLATION|KNOWN-FINDING|INCONCLUSIVE|BROKEN|^property|harness=" | cut -c1-300
rc=${PIPESTATUS[0]}
git -C /repo worktree remove --force $wt
echo "exit=$rc"
