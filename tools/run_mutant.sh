#!/bin/bash
# usage: run_mutant.sh <patch.diff> <prop> [gosym args...]
# Applies the patch in a scratch worktree of /repo (never /repo itself) and runs the check against it.
patch=$1; prop=$2; shift 2
wt=$(mktemp -d /tmp/mutwt.XXXXXX)
git -C /repo worktree add -q --detach $wt HEAD || exit 9
( cd $wt && git apply "$patch" ) || { echo "patch does not apply"; git -C /repo worktree remove --force $wt; exit 9; }
cd /verif
# the run rewrites evidence/<prop>.json with what it saw on the changed tree: keep the real one
save=$(mktemp /tmp/evsave.XXXXXX); cp /verif/evidence/$prop.json $save 2>/dev/null
VERIF_REPO=$wt timeout 1500 ${GOSYM:-./bin/gosym} check -p $prop -tier quick "$@" 2>&1 | grep -a -E "VIOLATION|KNOWN-FINDING|INCONCLUSIVE|BROKEN|^property|harness=" | cut -c1-300
rc=${PIPESTATUS[0]}
cp $save /verif/evidence/$prop.json 2>/dev/null; rm -f $save
git -C /repo worktree remove --force $wt
echo "exit=$rc"
