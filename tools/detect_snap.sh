#!/bin/bash
# usage: detect_snap.sh <prop> <idx> [check-prop] [gosym args...]
# As detect_mutant.sh, but the check runs from a private snapshot of /verif (harnesses, known
# findings, binary), so that editing /verif while a detection runs does not disturb it, and the
# run's evidence does not overwrite /verif/evidence. The patch is applied in a scratch worktree.
prop=$1; idx=$2; cp=${3:-$1}; shift; shift; [ $# -gt 0 ] && shift
dir=/verif/seeded/$prop-m$idx
[ -f $dir/patch.diff ] || { echo "no $dir/patch.diff"; exit 9; }
snap=$(mktemp -d /tmp/vsnap.XXXXXX)
cp -r /verif/harness $snap/harness; cp /verif/known_findings.json $snap/; mkdir -p $snap/bin $snap/evidence; cp /verif/bin/gosym $snap/bin/
wt=$(mktemp -d /tmp/mutwt.XXXXXX)
git -C /repo worktree add -q --detach $wt HEAD || exit 9
( cd $wt && git apply $dir/patch.diff ) || { echo "$prop m$idx: patch does not apply"; git -C /repo worktree remove --force $wt; rm -rf $snap; exit 9; }
s=$(date +%s)
out=$(cd $snap && VERIF_DIR=$snap VERIF_REPO=$wt timeout 1800 ./bin/gosym check -p $cp -tier quick "$@" 2>&1 | grep -a -E "VIOLATION|KNOWN-FINDING|INCONCLUSIVE|BROKEN|^property|harness=" | cut -c1-400; echo "exit=${PIPESTATUS[0]}")
e=$(date +%s)
git -C /repo worktree remove --force $wt; rm -rf $snap
rc=$(echo "$out" | grep -a -o "exit=[0-9]*" | tail -1)
det=no; echo "$out" | grep -a -q "^VIOLATION property=$cp" && det=yes
{
  echo "check: gosym check -p $cp -tier quick $* (scratch worktree of /repo HEAD $(git -C /repo log --format=%h -1) + patch.diff; /verif at $(git -C /verif log --format=%h -1)+)"
  echo "detected: $det ($rc, $((e-s)) s)"
  echo "$out" | grep -a -E "VIOLATION|harness=|KNOWN-FINDING|INCONCLUSIVE|BROKEN|^property|patch does not" | sed "s#$snap#/verif#g" | awk '!s[$0]++' | cut -c1-400 | head -12
} > $dir/detection_$cp.txt
echo "$prop m$idx check=$cp detected=$det $rc $((e-s))s"
