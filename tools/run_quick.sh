#!/bin/bash
# run the quick command of the given properties one after another; summary lines to stdout
cd /verif
for p in "$@"; do
  s=$(date +%s)
  out=$(timeout 3600 ./bin/gosym check -p $p -tier quick 2>&1)
  rc=$?
  e=$(date +%s)
  echo "== $p rc=$rc $((e-s))s"
  echo "$out" | grep -a -E "VIOLATION|KNOWN-FINDING|INCONCLUSIVE|BROKEN|^property" | cut -c1-260
done
