#!/usr/bin/env python3
# Generates MANIFEST.json from the table below (kept in one place so it stays valid).
import json
CLAIMED = {
 "C18": dict(cat="model_checking", tech="bounded symbolic execution of go/ssa + SMT (z3)",
   text="Round-robin pick arithmetic decided for every pool size 1..8 and every counter value below 2^62 by symbolic execution of the real roundRobinLB.Pick; lazy-initialisation interleavings by the partial-order encoding (see DESIGN 5.19).",
   note="openPoll stubbed by a ghost poller; fastrand arbitrary in range; bounds in evidence", ref="5.19"),
}
NA = {}
props = [json.loads(l)["id"] for l in open("/verif/properties.jsonl")]
checks = []
for p in props:
    if p in CLAIMED:
        c = CLAIMED[p]
        checks.append({
          "property_id": p,
          "quick_cmd": f"/verif/bin/gosym check -p {p} -tier quick",
          "thorough_cmd": f"/verif/bin/gosym check -p {p} -tier thorough",
          "evidence_file": f"/verif/evidence/{p}.json",
          "replay_cmd_template": "/verif/bin/gosym replay {path}",
          "engine": "gosym",
          "level_claimed": {"category": c["cat"], "text": c["text"], "design_ref": c["ref"]},
          "level_note": c["note"],
          "technique": c["tech"],
        })
na = [{"property_id": p, "reason": NA.get(p, "check not built yet in this session (work in progress; see DESIGN.md section 9 build order)")} for p in props if p not in CLAIMED]
m = {
 "version": 1,
 "setup_cmd": "cd /verif/engine && GOFLAGS=-mod=mod GOPROXY=off GOSUMDB=off GOTOOLCHAIN=local go build -o /verif/bin/gosym ./cmd/gosym",
 "hooks": {"guard": "verif", "enable": "harness, stub and replay files are injected at check time through go/packages Overlay and `go test -overlay` (files carry //go:build verif); nothing is compiled into /repo", 
           "baseline_off_cmd": "cd /repo && go test -vet=off -count=1 -timeout 25m ./...", "source_commits": [], "add_only": True},
 "engines": [{"name": "gosym", "path": "/verif/engine", "serves_properties": sorted(CLAIMED), "kind_free_text": "symbolic interpreter over golang.org/x/tools/go/ssa emitting SMT-LIB2 (bit-vectors + UF), z3 5.1/4.8.12 persistent processes; native replay through go test -overlay"}],
 "checks": checks,
 "not_applicable": na,
 "notes": "Solver-based checking of the real code only; see DESIGN.md.",
}
json.dump(m, open("/verif/MANIFEST.json","w"), indent=1)
print("claimed", sorted(CLAIMED), "na", len(na))
