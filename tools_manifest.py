#!/usr/bin/env python3
# Generates MANIFEST.json from the table below (kept in one place so it stays valid).
import json
LB_NOTE = "mcache/dirtmake/sync.Pool replaced by a ghost ledger over fresh never-reused blocks with arbitrary content (capacity = next power of two); bytes.IndexByte unrolled; shapes (pointer structure) enumerated, every size/offset/byte symbolic; sizes <= 8 MB in the general harness"
CLAIMED = {
 "C01": dict(cat="model_checking", tech="bounded symbolic execution of go/ssa + SMT (z3, LIA pre-check), differential against a FIFO rope reference",
   text="Every LinkBuffer method is executed symbolically from the real SSA from 19 reachable buffer shapes (sizes symbolic per size class) followed by one (quick) or two (thorough) arbitrary operations of 24 kinds with arbitrary arguments and a final drain; results, Len, MallocLen and the drained stream are compared with a FIFO reference for all sizes at once; counterexamples are replayed natively.",
   note=LB_NOTE, ref="5.1"),
 "C02": dict(cat="model_checking", tech="bounded symbolic execution of go/ssa + SMT; lease ghost state, write-log range disjointness",
   text="Same runs as C01 with lease ghost state: every zero-copy result and every Slice reader is re-examined after every later operation (content unchanged by structural range-disjointness over the block write-logs, block not handed back to the pool).",
   note=LB_NOTE, ref="5.2"),
 "C03": dict(cat="model_checking", tech="bounded symbolic execution of go/ssa + SMT; allocator ledger assertions at the stubs",
   text="Same runs as C01 with ledger assertions at the allocator stubs: every Free is of a whole pool block, at most once, with no reader left; node objects are pooled at most once; caller-owned memory is never written or freed.",
   note=LB_NOTE, ref="5.3"),
 "C16": dict(cat="model_checking", tech="bounded symbolic execution of go/ssa + SMT; nondeterministic io.Reader/io.Writer stubs",
   text="zcReader/zcWriter/ioReader/ioWriter run on the real LinkBuffer code against io.Reader/io.Writer stubs whose every count and error is a solver variable (short, zero, negative counts, data with error); two successive calls; stream compared with a rope reference; LinkBufferCap symbolic in one harness.",
   note=LB_NOTE + "; <= 3 source/sink calls per harness", ref="5.4"),
 "C18": dict(cat="model_checking", tech="bounded symbolic execution of go/ssa + SMT (z3)",
   text="Round-robin pick arithmetic decided for every pool size 1..8 and every counter value below 2^62 by symbolic execution of the real roundRobinLB.Pick; lazy-initialisation interleavings by the partial-order encoding (see DESIGN 5.19).",
   note="openPoll stubbed by a ghost poller; fastrand arbitrary in range; bounds in evidence", ref="5.19"),
}
NA = {}
props = [json.loads(l)["id"] for l in open("/verif/properties.jsonl")]
checks = []
for p in props:
    if p in CLAIMED:
        c = CLAIMED[p]
        checks.append({
          "property_id": p,
          "quick_cmd": f"/verif/bin/gosym check -p {p} -tier quick",
          "thorough_cmd": f"/verif/bin/gosym check -p {p} -tier thorough",
          "evidence_file": f"/verif/evidence/{p}.json",
          "replay_cmd_template": "/verif/bin/gosym replay {path}",
          "engine": "gosym",
          "level_claimed": {"category": c["cat"], "text": c["text"], "design_ref": c["ref"]},
          "level_note": c["note"],
          "technique": c["tech"],
        })
na = [{"property_id": p, "reason": NA.get(p, "check not built yet in this session (work in progress; see DESIGN.md section 9 build order)")} for p in props if p not in CLAIMED]
m = {
 "version": 1,
 "setup_cmd": "cd /verif/engine && GOFLAGS=-mod=mod GOPROXY=off GOSUMDB=off GOTOOLCHAIN=local go build -o /verif/bin/gosym ./cmd/gosym",
 "hooks": {"guard": "verif", "enable": "harness, stub and replay files are injected at check time through go/packages Overlay and `go test -overlay` (files carry //go:build verif); nothing is compiled into /repo", 
           "baseline_off_cmd": "cd /repo && go test -vet=off -count=1 -timeout 25m ./...", "source_commits": [], "add_only": True},
 "engines": [{"name": "gosym", "path": "/verif/engine", "serves_properties": sorted(CLAIMED), "kind_free_text": "symbolic interpreter over golang.org/x/tools/go/ssa emitting SMT-LIB2 (bit-vectors + UF), z3 5.1/4.8.12 persistent processes; native replay through go test -overlay"}],
 "checks": checks,
 "not_applicable": na,
 "notes": "Solver-based checking of the real code only; see DESIGN.md.",
}
json.dump(m, open("/verif/MANIFEST.json","w"), indent=1)
print("claimed", sorted(CLAIMED), "na", len(na))
