#!/usr/bin/env python3
# Generates MANIFEST.json from the table below (kept in one place so it stays valid).
import json
LB_NOTE = "mcache/dirtmake/sync.Pool replaced by a ghost ledger over fresh never-reused blocks with arbitrary content (capacity = next power of two); bytes.IndexByte unrolled; shapes (pointer structure) enumerated, every size/offset/byte symbolic; sizes <= 8 MB in the general harness"
CLAIMED = {
 "C01": dict(cat="model_checking", tech="bounded symbolic execution of go/ssa + SMT (z3, LIA pre-check), differential against a FIFO rope reference",
   text="Every LinkBuffer method is executed symbolically from the real SSA from 19 reachable buffer shapes (sizes symbolic per size class) followed by one (quick) or two (thorough) arbitrary operations of 24 kinds with arbitrary arguments and a final drain; plus writer histories around MallocAck on 8 shapes (3 reservations spanning several nodes, MallocAck of an arbitrary part, 3 more reservations, drain); results, Len, MallocLen and the drained stream are compared with a FIFO reference for all sizes at once; counterexamples are replayed natively.",
   note=LB_NOTE, ref="5.1"),
 "C02": dict(cat="model_checking", tech="bounded symbolic execution of go/ssa + SMT; lease ghost state, write-log range disjointness",
   text="Same runs as C01 with lease ghost state: every zero-copy result and every Slice reader is re-examined after every later operation (content unchanged by structural range-disjointness over the block write-logs, block not handed back to the pool).",
   note=LB_NOTE, ref="5.2"),
 "C03": dict(cat="model_checking", tech="bounded symbolic execution of go/ssa + SMT; allocator ledger assertions at the stubs",
   text="Same runs as C01 with ledger assertions at the allocator stubs: every Free is of a whole pool block, at most once, with no reader left; node objects are pooled at most once; caller-owned memory is never written or freed.",
   note=LB_NOTE, ref="5.3"),
 "C16": dict(cat="model_checking", tech="bounded symbolic execution of go/ssa + SMT; nondeterministic io.Reader/io.Writer stubs",
   text="zcReader/zcWriter/ioReader/ioWriter run on the real LinkBuffer code against io.Reader/io.Writer stubs whose every count and error is a solver variable (short, zero, negative counts, data with error); two successive calls; stream compared with a rope reference; LinkBufferCap symbolic in one harness.",
   note=LB_NOTE + "; <= 3 source/sink calls per harness", ref="5.4"),
 "C18": dict(cat="model_checking", tech="bounded symbolic execution of go/ssa + SMT (z3)",
   text="Round-robin pick arithmetic decided for every pool size 1..8 and every counter value below 2^62 by symbolic execution of the real roundRobinLB.Pick; sequential reconfiguration histories (a, b, c loops in 1..4 with Pick in between, balancing mode switched or not; a setting replaced before any Pick saw it; random and back to round-robin): after each phase exactly the configured number of pollers run, surplus ones are closed, every Pick returns a running member, round-robin visits every member whenever round-robin is the mode configured last (ghost expectation, not the balancer's own report).",
   note="openPoll stubbed by a ghost poller that may fail; fastrand arbitrary in range; the concurrent first-use race (two goroutines in the first Pick) is NOT covered: its partial-order exploration does not converge (40 800 events) and is left out", ref="5.19"),
}
PO_NOTE = "sequential consistency; buffers summarised on their length counter; kernel (epoll_ctl, close, sendmsg), timers and runner.RunTask replaced by ghost stubs; poller slot recycling stubbed to the token protocol (C10 covers it); bounds (deliveries, closers, task instances, state revisits) in evidence; counterexamples are schedules over real source lines; each is re-executed sequentially over one shared heap in the interpreter (independent of the partial-order encoding) and reported only if the assertion fails again; no native schedule replay"
SEQ_NOTE = "kernel calls replaced by nondeterministic stubs with stated contracts; counterexamples re-executed concretely in the interpreter (stubs cannot be installed in the native build)"
CLAIMED.update({
 "C05": dict(cat="model_checking", tech="partial-order (event/clock) SMT encoding of per-thread symbolic executions of go/ssa",
   text="The real Close/onClose/onHup/closeCallback/onProcess/locker/FDOperator.Control code is executed symbolically per thread (poller with hang-up goroutine, 1-2 closers, handler tasks spawned through runner.RunTask, handler consuming/closing/panicking; one close callback in the handler configurations, two in the handler-less one); every interleaving is a clock assignment; exactly-once, ordering and no-overlap monitors are decided as safety queries, 'everything torn down' as a quiescence query; Detach (sequential): the descriptor is not closed, also when the peer's hang-up was delivered first, everything else torn down once.",
   note=PO_NOTE, ref="5.7"),
 "C06": dict(cat="model_checking", tech="partial-order (event/clock) SMT encoding of per-thread symbolic executions of go/ssa",
   text="inputAck/onRequest/onProcess/SetOnRequest/onConnect hand-off executed symbolically per thread for 2 deliveries, SetOnRequest racing a delivery, OnConnect still running, delivery + hang-up; mutual exclusion of handler invocations (safety) and 'no quiescent state with stranded input' (quiescence with maximality).",
   note=PO_NOTE, ref="5.8"),
 "C07": dict(cat="model_checking", tech="partial-order SMT encoding + bounded symbolic execution (sequential part)",
   text="waitRead/waitReadWithTimeout/triggerRead/inputAck/onHup/onClose executed symbolically: reader (1-2 successive calls) vs poller chunks, timer expiry at any point (pre-1.23 timer channel ghost), peer close (also with an OnDisconnect callback that waits for the reader: the wake-up must not depend on the callback returning), local close; wake-up oracle as safety, 'never blocked once data/close/expiry holds' as quiescence; deadline boundary and NewFDConnection-style connections sequentially.",
   note=PO_NOTE, ref="5.9"),
 "C09": dict(cat="model_checking", tech="partial-order (event/clock) SMT encoding of per-thread symbolic executions of go/ssa",
   text="onPrepare/register (sequential prologue), onConnect/onDisconnect/onRequest/onProcess/onHup/closeCallback per thread: accept path vs poller (first data, hang-up at any point relative to OnConnect); order monitors in the callbacks as safety, 'OnDisconnect ran exactly once' as quiescence.",
   note=PO_NOTE, ref="5.11"),
 "C10": dict(cat="model_checking", tech="bounded symbolic execution of go/ssa + SMT over close/reopen/stale-call histories",
   text="Sequential histories over the real operatorCache/FDOperator/defaultPoll/connection code with real buffers: A registered and an event fetched, A closed (user or hang-up), batch end before/after B opens (possibly with A's descriptor number), one of 6 stale calls on A; B's input, slot token, activity and handler must be untouched and the slot not re-issued before the batch ends; when close(2) is issued on A's descriptor the slot has been given up (the number can be re-issued from then on); plus a partial-order harness: a stale Release/Close/Len on A concurrent with the poller's dispatch on B, which owns A's recycled slot - the poller always gets the token.",
   note=SEQ_NOTE, ref="5.12"),
 "C11": dict(cat="model_checking", tech="bounded symbolic execution of go/ssa + SMT; event words and kernel answers symbolic",
   text="defaultPoll.handler/appendHup/detach/onhups/readall/ioread/iosend executed on a batch whose 32-bit flag words, unread-byte counts and every readv/sendmsg/Recvmsg answer are solver variables; log oracles: input before hang-up, ack counts equal kernel counts, hang-up once and after deregistration, drain-before-hang-up, slot token returned, wake-up/close arithmetic of the eventfd; complete Trigger calls from other goroutines injected around the handler's eventfd read: the wake-up flag is never left set with an empty eventfd, a later Trigger wakes the loop.",
   note=SEQ_NOTE, ref="5.13"),
 "C12": dict(cat="model_checking", tech="bounded symbolic execution of go/ssa + SMT over the method x close-mode matrix",
   text="23 methods x {user, peer, peer then user, detach} x {with/without OnRequest} x {output pending or not}, input 0..64 bytes symbolic: the real close path runs to completion on real buffers, then the method is called, then Close, then the method again; no panic path, no blocking path, ErrConnClosed/ErrEOF matching as stated; the 9 reader calls again on a connection with a read timeout whose timer already exists and is stopped.",
   note=SEQ_NOTE, ref="5.14"),
})
CLAIMED.update({
 "C04": dict(cat="model_checking", tech="bounded symbolic execution of go/ssa + SMT; decomposed send/receive path over real LinkBuffer code",
   text="Decomposed as in DESIGN 5.5: GetBytes/iovec construction (1..4 nodes), pollArgs reset, and the send path (flush -> sendmsg with arbitrary short counts/EAGAIN -> outputAck -> write-ready resume) are executed symbolically on the real buffer code; the bytes the kernel ghost received are compared with the bytes written for every size and every kernel answer; the receive half runs through the real connection.inputs/inputAck (book/bookAck on the real input buffer, symbolic bookSize/maxSize) for 3 poller rounds whose kernel answers (n bytes, nothing, error) are solver choices: Len and the bytes read equal what the kernel ghost stored.",
   note=SEQ_NOTE + "; <= 4 iovecs, <= 3 sendmsg answers per flush; receive and send halves are checked separately (no socket in between)", ref="5.5"),
 "C08": dict(cat="model_checking", tech="partial-order (event/clock) SMT encoding of per-thread symbolic executions of go/ssa",
   text="flush/waitFlush/sendmsg/outputAck/onWrite (rw2r)/onHup/onClose executed symbolically per thread: writer with 1-2 Flush calls vs poller write-ready dispatches, peer drain, write-timer expiry, close, peer hang-up (also with an OnDisconnect callback that waits for the flusher); oracle: nil only when the kernel ghost took every byte, error only with close/timeout, writer never left blocked once space/close/expiry holds (quiescence).",
   note=PO_NOTE + "; byte counts in [1,2^20] in scenarios 0,1,3 and in [1,4] in scenarios 2,4,5 (measured: large ranges make those queries time out); timer durations are checked in the sequential deadline harness, not in the partial-order scenarios (there a timer may fire at any moment)", ref="5.10"),
 "C13": dict(cat="model_checking", tech="bounded symbolic execution of go/ssa + SMT with event injection at the stub boundaries",
   text="server.OnRead/onAccept/OnHup/Close executed sequentially with the racing step (peer hang-up, Shutdown, accept failure incl. the EMFILE back-off ladder with 1..9 failures) injected at every stub boundary by a solver-chosen switch; table of tracked connections compared with the ghost set after every step; Close returns nil only with an empty table, closes every idle connection whatever the table order, never closes a busy one (handler running, unread input, or unsent output), also not in the sweep that lets Close return; a descriptor number re-issued to a newly accepted connection at the close(2) of the old one: the new connection stays tracked.",
   note=SEQ_NOTE + "; interleavings are limited to the injection points (kernel stubs, RunTask, callbacks), not instruction-level", ref="5.15"),
 "C14": dict(cat="model_checking", tech="bounded symbolic execution of go/ssa + SMT; connect/poll/getsockopt answers symbolic",
   text="DialTCP and the dialer front end (dialer.dialTCP with stubbed resolution) executed on kernel stubs whose every answer (EINPROGRESS, EINTR, EISCONN, SO_ERROR, readiness, hang-up, deadline expiry at any event incl. after establishment, one self-connect retry, EPOLL_CTL_ADD failing, EADDRNOTAVAIL answers) is a solver variable: the result is a usable registered connection whose last kernel verdict was 'established', or an error with every descriptor closed once and nothing registered; timeout errors report Timeout().",
   note=SEQ_NOTE + "; errors built by os.NewSyscallError are opaque values in the encoder, so the EADDRNOTAVAIL retry branch of sysDialer.dialTCP (a type assertion on *os.SyscallError) is not entered: the bound of that retry loop is outside the claim", ref="5.16"),
 "C15": dict(cat="model_checking", tech="bounded symbolic execution of go/ssa + SMT; descriptor ledger ghost at the syscall stubs",
   text="Every encoded path that opens a descriptor (openPoll with epoll_create/eventfd, sysSocket with its option/dial failure paths, ConvertListener/File() dup, listener.Close, and the dial/accept failure paths of the C13/C14 harnesses) runs against a descriptor ledger that may re-issue a closed number to a foreign owner: each owned descriptor closed exactly once on every success and error path, no close of a descriptor not owned.",
   note=SEQ_NOTE, ref="5.17"),
 "C17": dict(cat="model_checking", tech="bounded symbolic execution of go/ssa + SMT over scripts with call-granular injection of concurrent Add/Close",
   text="ShardQueue Add/foreach/deal/Close executed symbolically over solver-chosen scripts (Add | run the pending worker | Close, <= 5 steps, 1..3 shards) and with a complete Add from another goroutine (<= 3) or the beginning of Close injected at every call-out of the worker (IsActive, getter begin/end, Append, Flush begin/end), and the worker started by the first Add running to completion at the second Add's listLock call (the one call-out inside Add): every getter added before Close is invoked exactly once, a Flush follows the last Append, Close returns only after every earlier getter was invoked, Adds after Close invoke nothing, trigger and worker counters back to zero.",
   note="interleavings are call-granular: instruction-level interleavings inside Add / the worker loop are NOT covered (the partial-order exploration of this slice/closure-heavy code does not converge); a Close that has to wait is suspended after its CAS and its wait loop is completed by the harness between tasks; runner.RunTask stubbed by a task list", ref="5.18"),
 "C19": dict(cat="model_checking", tech="partial-order SMT encoding: adjacency query over conflicting access pairs (one plain)",
   text="On every partial-order harness of C05-C09 (teardown, hand-off, wake-up with Release, flush, lifecycle order) on a dedicated Release-vs-delivery harness and on a slot give-back (operatorCache.freeable) vs dispatching-poller harness the query 'two accesses to the same location from different threads, one a write, one not atomic, both executed and adjacent in the global order' is posed over all statically conflicting pairs; a locked/unlocked pair of guard harnesses (vacuity twin) shows the query sees a race and does not invent one.",
   note=PO_NOTE + "; buffer internals are summarised (the documented exemption); objects allocated by a thread and published later are snapshotted, so races on them are outside; server/dialer/ShardQueue/pool-reconfiguration scenarios are outside (no partial-order harness for them); no -race replay", ref="5.20"),
})
NA = {}
props = [json.loads(l)["id"] for l in open("/verif/properties.jsonl")]
checks = []
for p in props:
    if p in CLAIMED:
        c = CLAIMED[p]
        checks.append({
          "property_id": p,
          "quick_cmd": f"/verif/bin/gosym check -p {p} -tier quick",
          "thorough_cmd": f"/verif/bin/gosym check -p {p} -tier thorough",
          "evidence_file": f"/verif/evidence/{p}.json",
          "replay_cmd_template": "/verif/bin/gosym replay {path}",
          "engine": "gosym",
          "level_claimed": {"category": c["cat"], "text": c["text"], "design_ref": c["ref"]},
          "level_note": c["note"],
          "technique": c["tech"],
        })
na = [{"property_id": p, "reason": NA.get(p, "check not built yet in this session (work in progress; see DESIGN.md section 9 build order)")} for p in props if p not in CLAIMED]
m = {
 "version": 1,
 "setup_cmd": "cd /verif/engine && GOFLAGS=-mod=mod GOPROXY=off GOSUMDB=off GOTOOLCHAIN=local go build -o /verif/bin/gosym ./cmd/gosym",
 "hooks": {"guard": "verif", "enable": "harness, stub and replay files are injected at check time through go/packages Overlay and `go test -overlay` (files carry //go:build verif); nothing is compiled into /repo", 
           "baseline_off_cmd": "cd /repo && go test -vet=off -count=1 -timeout 25m ./...", "source_commits": [], "add_only": True},
 "engines": [{"name": "gosym", "path": "/verif/engine", "serves_properties": sorted(CLAIMED), "kind_free_text": "symbolic interpreter over golang.org/x/tools/go/ssa emitting SMT-LIB2 (bit-vectors + UF), z3 5.1/4.8.12 persistent processes; native replay through go test -overlay"}],
 "checks": checks,
 "not_applicable": na,
 "notes": "Solver-based checking of the real code only; see DESIGN.md.",
}
json.dump(m, open("/verif/MANIFEST.json","w"), indent=1)
print("claimed", sorted(CLAIMED), "na", len(na))
