//go:build verif

package netpoll

import (
	"context"
	"net"
	"sync/atomic"
	"syscall"
	"time"
)

// C14 — a dial ends in a usable connection or a clean error within its timeout (DESIGN 5.16),
// sequentially with the kernel events serialised: every syscall answers with a solver-chosen
// result; while the temporary operator is registered for writability the kernel delivers, in
// a solver-chosen order, any of: write-ready, hang-up, expiry of the context.

//verif:stub syscall.Connect verifDialConnect
//verif:stub syscall.GetsockoptInt verifDialGetsockoptInt
//verif:stub syscall.Getpeername verifDialGetpeername
//verif:stub syscall.Getsockname verifDialGetsockname
//verif:stub syscall.Socket verifDialSocket
//verif:stub syscall.Close verifDialClose
//verif:stub syscall.CloseOnExec verifDialCloseOnExec
//verif:stub syscall.SetNonblock verifDialSetNonblock
//verif:stub github.com/cloudwego/netpoll.setDefaultSockopts verifDialSockopts
//verif:stub github.com/cloudwego/netpoll.EpollCtl verifDialEpollCtl
//verif:stub (*github.com/cloudwego/netpoll.TCPAddr).sockaddr verifDialSockaddr
//verif:stub (*github.com/cloudwego/netpoll.TCPAddr).String verifDialAddrString
//verif:stub github.com/cloudwego/netpoll.sockaddrToAddr verifDialSockaddrToAddr
//verif:stub github.com/cloudwego/netpoll.selfConnect verifDialSelfConnect
//verif:stub net.SplitHostPort verifDialSplitHostPort
//verif:stub (*net.Resolver).LookupPort verifDialLookupPort
//verif:stub (*net.Resolver).LookupIPAddr verifDialLookupIPAddr
//verif:stub (net.IP).To4 verifDialTo4

type verifDialMon struct {
	open      [16]int // 0 free 1 open
	closes    [16]int
	next      int
	ctlAdd    int
	ctlDel    int
	registered [16]int // descriptor in the interest set: 0 no, 1 read, 2 write
	ctx       *verifDialCtx
	fired     bool
	events    int
	selfConnects int
	sockets      int
	notAvail     int
	// what the kernel last said about the connection attempt on a descriptor:
	// 1 established (connect 0/EISCONN, SO_ERROR 0 + peer name, SO_ERROR EISCONN), 2 failed
	verdict [16]int
}

var verifD *verifDialMon

type verifDialCtx struct {
	done chan struct{}
	err  error
}

func (c *verifDialCtx) Deadline() (time.Time, bool)       { return time.Time{}, true }
func (c *verifDialCtx) Done() <-chan struct{}             { return c.done }
func (c *verifDialCtx) Err() error                        { return c.err }
func (c *verifDialCtx) Value(key interface{}) interface{} { return nil }

func (c *verifDialCtx) fire() {
	if c.err == nil {
		c.err = context.DeadlineExceeded
		close(c.done)
		verifD.fired = true
	}
}

func verifDialSocket(domain, typ, proto int) (int, error) {
	if verifStubBool("socket.fails") {
		return -1, syscall.EMFILE
	}
	// one dial opens at most three sockets (the first attempt and two re-tries after a
	// self-connect or a spurious EADDRNOTAVAIL): the retry loop does not look at the context, so
	// its bound is what keeps the dial within its timeout
	verifD.sockets++
	verifAssert(verifD.sockets <= 3, "C14/dial-retries-without-bound")
	verifAssume(verifD.sockets <= 4)
	fd := verifD.next
	verifD.next++
	verifD.open[fd] = 1
	return fd, nil
}

func verifDialClose(fd int) error {
	verifAssert(fd >= 3 && fd < 16 && verifD.open[fd] == 1, "C14/close-of-descriptor-not-open")
	if fd >= 3 && fd < 16 {
		verifD.open[fd] = 0
		verifD.closes[fd]++
		verifD.registered[fd] = 0 // the kernel drops a closed descriptor from the interest set
	}
	return nil
}

func verifDialCloseOnExec(fd int)                     {}
func verifDialSetNonblock(fd int, nb bool) error      { return nil }
func verifDialSockopts(s, f, t int, v6 bool) error    { return nil }
func verifDialSockaddr(a *TCPAddr, family int) (syscall.Sockaddr, error) { return nil, nil }
func verifDialAddrString(a *TCPAddr) string           { return "1.2.3.4:80" }
func verifDialSockaddrToAddr(sa syscall.Sockaddr) net.Addr { return verifAddr{} }
// the kernel picked source port == destination port: at most once per dial, only on success
func verifDialSelfConnect(conn *netFD, err error) bool {
	// (bound: only an attempt that connected at once is re-tried, so that the second attempt
	// can range over everything)
	if err != nil || verifD.selfConnects >= 1 || verifD.ctlAdd != 0 || verifD.events != 0 {
		return false
	}
	if verifStubBool("self.connect") {
		verifD.selfConnects++
		return true
	}
	return false
}

func verifDialTo4(ip net.IP) net.IP {
	if len(ip) == 4 {
		return ip
	}
	return nil
}

func verifDialSplitHostPort(hostport string) (string, string, error) { return "1.2.3.4", "80", nil }
func verifDialLookupPort(r *net.Resolver, ctx context.Context, network, service string) (int, error) {
	return 80, nil
}
func verifDialLookupIPAddr(r *net.Resolver, ctx context.Context, host string) ([]net.IPAddr, error) {
	return []net.IPAddr{{IP: net.IP{1, 2, 3, 4}}}, nil
}

func verifDialConnect(fd int, sa syscall.Sockaddr) error {
	// no local port available right now: may persist over every attempt of the dial
	if verifD.ctlAdd == 0 && verifD.events == 0 && verifD.selfConnects == 0 && verifStubBool("connect.eaddrnotavail") {
		verifD.notAvail++
		verifD.verdict[fd] = 2
		return syscall.EADDRNOTAVAIL
	}
	switch verifPick("connect.result", 0, 4) {
	case 0:
		verifD.verdict[fd] = 1
		return nil
	case 1:
		return syscall.EINPROGRESS
	case 2:
		verifD.verdict[fd] = 1
		return syscall.EISCONN
	case 3:
		return syscall.EINTR
	}
	verifD.verdict[fd] = 2
	return syscall.ECONNREFUSED
}

func verifDialGetsockoptInt(fd, level, opt int) (int, error) {
	verifD.events++
	verifAssume(verifD.events <= 2) // bound: SO_ERROR is asked at most twice per dial
	switch verifPick("so_error", 0, 3) {
	case 0:
		verifD.verdict[fd] = 3 // no error pending: established iff the peer name can be read
		return 0, nil
	case 1:
		verifD.verdict[fd] = 2
		return int(syscall.ECONNREFUSED), nil
	case 2:
		verifD.verdict[fd] = 1
		return int(syscall.EISCONN), nil
	}
	return int(syscall.EINPROGRESS), nil
}

func verifDialGetpeername(fd int) (syscall.Sockaddr, error) {
	if verifStubBool("getpeername.fails") {
		return nil, syscall.ENOTCONN
	}
	if verifD.verdict[fd] == 3 {
		verifD.verdict[fd] = 1
	}
	return nil, nil
}

func verifDialGetsockname(fd int) (syscall.Sockaddr, error) { return nil, nil }

// registration for writability: the kernel now delivers events to the operator, serialised
func verifDialEpollCtl(epfd, op, fd int, event *epollevent) error {
	d := verifD
	switch op {
	case 1:
		if verifStubBool("epoll.add.fails") {
			// e.g. ENOSPC (max_user_watches) or ENOMEM: nothing is registered
			return syscall.ENOSPC
		}
		d.ctlAdd++
		if event.events&0x4 != 0 {
			d.registered[fd] = 2
			o := *(**FDOperator)(verifUnsafe(&event.data))
			p := o.poll
			// up to two events, each one of: write-ready, hang-up, context expiry, nothing
			for i := 0; i < 2; i++ {
				switch verifPick("kernel.event", 0, 3) {
				case 0:
					if d.registered[fd] == 2 && o.OnWrite != nil {
						o.OnWrite(p)
					}
				case 1:
					if d.registered[fd] != 0 && o.OnHup != nil {
						o.OnHup(p)
					}
				case 2:
					d.ctx.fire()
				}
			}
		} else {
			d.registered[fd] = 1
		}
	case 2:
		d.ctlDel++
		d.registered[fd] = 0
	case 3:
		if event.events&0x4 != 0 {
			d.registered[fd] = 2
		} else {
			d.registered[fd] = 1
		}
	}
	return nil
}

func verifDialCensus(label string, wantOpenFd int) {
	d := verifD
	for fd := 3; fd < 16; fd++ {
		if fd == wantOpenFd {
			verifAssert(d.open[fd] == 1, label+"/connection-descriptor-not-open")
		} else {
			verifAssert(d.open[fd] == 0, label+"/descriptor-left-behind")
			verifAssert(d.registered[fd] == 0, label+"/registration-left-behind")
		}
		verifAssert(d.closes[fd] <= 1, label+"/descriptor-closed-twice")
	}
}

// DialTCP over the ghost kernel.
//
//verif:bounds one dial; connect/SO_ERROR/getpeername answers symbolic; <= 2 kernel events (write-ready, hang-up, context expiry) while registered; SO_ERROR asked <= 2 times
//verif:loop 40
//verif:replay interp
//verif:blockok
func verifHarness_C14_dialtcp() {
	verifK = &verifKMon{}
	verifD = &verifDialMon{next: 3}
	runner_RunTask_set()
	pollmanager = newManager(1)
	ctx := &verifDialCtx{done: make(chan struct{})}
	verifD.ctx = ctx
	if verifNondetBool("expired.at.start") {
		ctx.fire()
	}
	raddr := &TCPAddr{}
	raddr.IP = net.IP{1, 2, 3, 4}
	raddr.Port = 80
	conn, err := DialTCP(ctx, "tcp", nil, raddr)
	verifAssert((conn == nil) != (err == nil), "C14/connection-and-error-both-or-neither")
	if err != nil {
		verifDialCensus("C14/failed-dial", -1)
		if verifD.fired {
			ne, ok := err.(net.Error)
			verifAssert(!ok || ne.Timeout() || !verifDialIsTimeoutErr(err), "C14/timeout-error-does-not-report-Timeout")
		}
		verifReach("failed")
		return
	}
	verifDialCensus("C14/successful-dial", conn.fd)
	verifAssert(verifD.verdict[conn.fd] == 1, "C14/success-although-the-kernel-did-not-report-the-connection-established")
	verifAssert(verifD.registered[conn.fd] == 1, "C14/connection-not-registered-readable")
	verifAssert(conn.IsActive(), "C14/connection-not-active")
	verifAssert(atomic.LoadInt32(&conn.operator.state) == 1, "C14/connection-operator-not-in-use")
	verifReach("connected")
}

// is err the dial's own timeout error (the context expired)? its text is the standard one
func verifDialIsTimeoutErr(err error) bool {
	op, ok := err.(*net.OpError)
	if !ok {
		return false
	}
	return op.Err == errIOTimeout
}

// The same dial through the dialer front end (DialConnection / DialTimeout path): address
// resolution is stubbed to one IPv4 address; the context may expire at any kernel event,
// including after the connection was established.
//
//verif:bounds as dialtcp, through dialer.dialTCP with one resolved address
//verif:loop 40
//verif:replay interp
//verif:blockok
func verifHarness_C14_dialer() {
	verifK = &verifKMon{}
	verifD = &verifDialMon{next: 3}
	runner_RunTask_set()
	pollmanager = newManager(1)
	ctx := &verifDialCtx{done: make(chan struct{})}
	verifD.ctx = ctx
	d := &dialer{}
	conn, err := d.dialTCP(ctx, "tcp", "1.2.3.4:80")
	verifAssert((conn == nil) != (err == nil), "C14/connection-and-error-both-or-neither")
	if err != nil {
		verifDialCensus("C14/failed-dial", -1)
		verifReach("failed")
		return
	}
	verifDialCensus("C14/successful-dial", conn.fd)
	verifAssert(verifD.verdict[conn.fd] == 1, "C14/success-although-the-kernel-did-not-report-the-connection-established")
	verifAssert(conn.IsActive(), "C14/connection-not-active")
	verifReach("connected")
}
