//go:build verif

// Harness vocabulary. The symbolic engine intercepts every function whose name starts with
// "verif" by name and ignores the bodies below; the bodies are the *native* meaning used when
// a solver assignment is replayed against the compiled real code (go test -overlay).
package netpoll

import (
	"bytes"
	"encoding/json"
	"fmt"
	"os"
	"sort"
	"strings"
	"testing"

	"github.com/bytedance/gopkg/lang/mcache"
)

type verifReplayVal struct {
	Name string `json:"name"`
	Val  int64  `json:"val"`
}

type verifReplayFile struct {
	Harness  string           `json:"harness"`
	HasParam bool             `json:"has_param"`
	Param    int              `json:"param"`
	Mode     string           `json:"mode"`
	Label    string           `json:"label"`
	Values   []verifReplayVal `json:"values"`
}

var (
	verifVals    []verifReplayVal
	verifValIdx  int
	verifFailed  []string
	verifReached []string
	verifDiverge []string
	verifGhost   = map[string]int{}
	verifSnaps   [][2][]byte
)

type verifAssumeFailed struct{}

func verifNext(name string) int64 {
	if verifValIdx >= len(verifVals) {
		verifDiverge = append(verifDiverge, "out of values at "+name)
		return 0
	}
	v := verifVals[verifValIdx]
	verifValIdx++
	if v.Name != name {
		verifDiverge = append(verifDiverge, fmt.Sprintf("expected %s got %s", v.Name, name))
	}
	return v.Val
}

func verifNondetInt(name string) int       { return int(verifNext(name)) }
func verifNondetInt64(name string) int64   { return verifNext(name) }
func verifNondetInt32(name string) int32   { return int32(verifNext(name)) }
func verifNondetUint32(name string) uint32 { return uint32(verifNext(name)) }
func verifNondetByte(name string) byte     { return byte(verifNext(name)) }
func verifNondetBool(name string) bool     { return verifNext(name) != 0 }

// stub-only nondeterminism: never consumed natively (stubs are not installed natively)
func verifStubInt(name string) int   { return 0 }
func verifStubBool(name string) bool { return false }

// verifNondetBytes: caller-owned memory with arbitrary content.
func verifNondetBytes(name string, n int) []byte {
	if n < 0 || n > 1<<26 {
		panic(verifAssumeFailed{})
	}
	b := make([]byte, n)
	seed := byte(len(name)*31 + 7)
	for i := range b {
		b[i] = seed + byte(i*13) + byte(i>>8)
	}
	if n > 0 {
		// remember the content of the whole block (verifWroteCaller compares against it)
		verifCallerBlocks[&b[0]] = append([]byte(nil), b...)
	}
	return b
}

var verifCallerBlocks = map[*byte][]byte{}

// verifNewBlock: allocator stubs only.
func verifNewBlock(tag string, n int) []byte { return make([]byte, n) }

func verifAssume(c bool) {
	if !c {
		panic(verifAssumeFailed{})
	}
}

func verifAssert(c bool, label string) {
	if !c {
		verifFailed = append(verifFailed, label)
	}
}

func verifReach(label string) { verifReached = append(verifReached, label) }

func verifLog(tag string, vals ...int) {}

func verifBlockID(p []byte) int {
	if cap(p) == 0 {
		return 0
	}
	q := p[:cap(p)]
	return int(uintptrOf(&q[cap(p)-1]))
}
func verifBlockOff(p []byte) int            { return 0 }
func verifBlockCap(p []byte) int            { return cap(p) }
func verifBlockIs(p []byte, tag string) bool { return false }
func verifStrBytes(s string) []byte         { return []byte(s) }
func verifBytesStr(p []byte) string         { return string(p) }

func verifGhostSet(key string, id int, v int) { verifGhost[fmt.Sprint(key, ":", id)] = v }
func verifGhostGet(key string, id int) int    { return verifGhost[fmt.Sprint(key, ":", id)] }
// has anybody written into the block p was cut from (its whole capacity) since it was created?
func verifWroteCaller(p []byte) bool {
	if cap(p) == 0 {
		return false
	}
	full := p[:cap(p)]
	orig, ok := verifCallerBlocks[&full[0]]
	if !ok || len(orig) != len(full) {
		return false
	}
	for i := range full {
		if full[i] != orig[i] {
			return true
		}
	}
	return false
}

// verifSnapshot remembers the current content of p (and p itself); verifUnchanged compares.
func verifSnapshot(p []byte) int {
	verifSnaps = append(verifSnaps, [2][]byte{p, append([]byte(nil), p...)})
	return len(verifSnaps)
}

func verifUnchanged(h int) bool {
	s := verifSnaps[h-1]
	return bytes.Equal(s[0], s[1])
}

func verifBytesEq(a, b []byte) bool { return bytes.Equal(a, b) }

func verifRunPending() bool { return false }
func verifPanicOK()         {}

func verifPick(name string, lo, hi int) int {
	v := int(verifNext(name))
	if v < lo || v > hi {
		panic(verifAssumeFailed{})
	}
	return v
}

func verifIsConcrete(x int) bool { return true }

// verifFill gives memory whose content is "arbitrary" a concrete, position-dependent pattern in
// the native replay (so that shifted, stale or duplicated bytes are visible); for the solver
// the content simply stays arbitrary.
var verifFillSeq int

func verifFill(p []byte) {
	verifFillSeq++
	for i := range p {
		p[i] = byte(verifFillSeq*53 + i*7 + (i >> 8) + 1)
	}
}

func verifIteInt(c bool, a, b int) int {
	if c {
		return a
	}
	return b
}

func verifIteByte(c bool, a, b byte) byte {
	if c {
		return a
	}
	return b
}

func verifIteBool(c bool, a, b bool) bool {
	if c {
		return a
	}
	return b
}

// verifSnapByte reads byte j of the content remembered by verifSnapshot.
func verifSnapByte(h int, j int) byte {
	s := verifSnaps[h-1][1]
	if j < 0 || j >= len(s) {
		return 0
	}
	return s[j]
}

// verifAll: for all j in [0,n): f(j). The solver treats j as a fresh (Skolem) variable, so the
// result may only be used as the condition of verifAssert.
func verifAll(n int, f func(j int) bool) bool {
	for j := 0; j < n && j < 1<<22; j++ {
		if !f(j) {
			return false
		}
	}
	return true
}

func verifObjID(x interface{}) int { return 0 }

// model threads (partial-order mode). Natively they are only registered.
var verifThreads []func()

func verifThread(name string, f func()) { verifThreads = append(verifThreads, f) }
func verifFinal(name string, f func())  { verifThreads = append(verifThreads, f) }
func verifSpawn(f func())               { go f() }

// ropes: reference byte streams. Natively plain byte slices.
var verifRopes = map[int][]byte{}

func verifRopeNew() int {
	id := len(verifRopes) + 1
	verifRopes[id] = []byte{}
	return id
}
func verifRopeAppend(id int, p []byte)     { verifRopes[id] = append(verifRopes[id], p...) }
func verifRopeAppendByte(id int, c byte)   { verifRopes[id] = append(verifRopes[id], c) }
func verifRopeTrunc(id int, n int) {
	if n < 0 {
		n = 0
	}
	if n < len(verifRopes[id]) {
		verifRopes[id] = verifRopes[id][:n]
	}
}
func verifRopeInsert(id int, cut int, p []byte) {
	r := verifRopes[id]
	if cut < 0 {
		cut = 0
	}
	if cut > len(r) {
		cut = len(r)
	}
	n := append([]byte{}, r[:cut]...)
	n = append(n, p...)
	n = append(n, r[cut:]...)
	verifRopes[id] = n
}
func verifRopeMove(dst, src int) {
	verifRopes[dst] = append(verifRopes[dst], verifRopes[src]...)
	verifRopes[src] = []byte{}
}
func verifRopeMoveCommitted(dst, src int) { verifRopeMove(dst, src) }
func verifRopePrefix(a, b int, n int) bool {
	ra, rb := verifRopes[a], verifRopes[b]
	return len(rb) <= len(ra) && bytes.Equal(ra[:len(rb)], rb)
}
func verifRopeLen(id int) int { return len(verifRopes[id]) }
func verifRopeMatch(id int, pos int, p []byte) bool {
	r := verifRopes[id]
	if pos < 0 || pos+len(p) > len(r) {
		return len(p) == 0
	}
	return bytes.Equal(r[pos:pos+len(p)], p)
}
func verifRopeByte(id int, pos int) byte {
	r := verifRopes[id]
	if pos < 0 || pos >= len(r) {
		return 0
	}
	return r[pos]
}

// verifScribblePool makes a freed-too-early pool block observable natively: it takes blocks
// of every size class from the pool, overwrites them and hands them back. Symbolically it
// is a no-op (the ledger assertions at the allocator stubs decide there).
func verifScribblePool() {
	for sz := 1; sz <= 1<<16; sz <<= 1 {
		var held [][]byte
		for k := 0; k < 4; k++ {
			b := mcache.Malloc(sz)
			for i := range b {
				b[i] = 0xEE
			}
			held = append(held, b)
		}
		for _, b := range held {
			mcache.Free(b)
		}
	}
}

func verifReplayMain(t *testing.T, plain map[string]func(), param map[string]func(int)) {
	path := os.Getenv("VERIF_REPLAY")
	if path == "" {
		t.Skip("no VERIF_REPLAY")
	}
	b, err := os.ReadFile(path)
	if err != nil {
		t.Fatal(err)
	}
	var rf verifReplayFile
	if err := json.Unmarshal(b, &rf); err != nil {
		t.Fatal(err)
	}
	verifVals = rf.Values
	panicked := false
	assumeFailed := false
	pmsg := ""
	func() {
		defer func() {
			if r := recover(); r != nil {
				if _, ok := r.(verifAssumeFailed); ok {
					assumeFailed = true
					return
				}
				panicked = true
				pmsg = fmt.Sprint(r)
			}
		}()
		if rf.HasParam {
			f := param[rf.Harness]
			if f == nil {
				t.Fatalf("unknown harness %s", rf.Harness)
			}
			f(rf.Param)
		} else {
			f := plain[rf.Harness]
			if f == nil {
				t.Fatalf("unknown harness %s", rf.Harness)
			}
			f()
		}
	}()
	sort.Strings(verifFailed)
	var fl []string
	for _, f := range verifFailed {
		fl = append(fl, "["+f+"]")
	}
	if len(fl) == 0 {
		fl = []string{"[]"}
	}
	var rl []string
	for _, r := range verifReached {
		rl = append(rl, "<"+r+">")
	}
	fmt.Printf("\nVERIF-REPLAY-RESULT: failed=%s reached=%s panic=%v assume_failed=%v diverged=%d msg=%q\n",
		strings.Join(fl, ""), strings.Join(rl, ""), panicked, assumeFailed, len(verifDiverge), pmsg)
}
