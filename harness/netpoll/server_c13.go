//go:build verif

package netpoll

import (
	"context"
	"net"
	"sync"
	"sync/atomic"
	"syscall"
	"time"
)

// C13 — the server tracks every accepted connection and shuts down gracefully (DESIGN 5.15).
// Sequential, with the other goroutines' steps injected at the stub boundaries: a hang-up of
// the connection being accepted can be delivered right after its registration or right
// before it is stored in the connection table; the shutdown pass sees a busy and an idle
// connection; Accept follows a script with EMFILE stretches.

//verif:stub (*sync.Map).Store verifMapStore
//verif:stub (*sync.Map).Delete verifMapDelete
//verif:stub (*sync.Map).Range verifMapRange
//verif:stub (*sync.Map).Load verifMapLoad
//verif:stub time.After verifTimeAfter
//verif:stub time.Sleep verifTimeSleep
//verif:stub github.com/cloudwego/netpoll.EpollCtl verifSrvEpollCtl
//verif:stub strings.Contains verifStringsContains

// sync.Map as a bounded association list (atomic per call; Range iterates a snapshot)
type verifMapT struct {
	keys [4]interface{}
	vals [4]interface{}
	used [4]bool
}

var verifMap verifMapT
var verifSrvHook func(point int) // injection of other goroutines' steps

func verifMapStore(m *sync.Map, k, v interface{}) {
	if verifSrvHook != nil {
		verifSrvHook(2)
	}
	for i := 0; i < 4; i++ {
		if verifMap.used[i] && verifMap.keys[i] == k {
			verifMap.vals[i] = v
			return
		}
	}
	for i := 0; i < 4; i++ {
		if !verifMap.used[i] {
			verifMap.used[i], verifMap.keys[i], verifMap.vals[i] = true, k, v
			return
		}
	}
	verifAssume(false)
}

func verifMapDelete(m *sync.Map, k interface{}) {
	for i := 0; i < 4; i++ {
		if verifMap.used[i] && verifMap.keys[i] == k {
			verifMap.used[i] = false
			verifMap.keys[i], verifMap.vals[i] = nil, nil
		}
	}
}

func verifMapLoad(m *sync.Map, k interface{}) (interface{}, bool) {
	for i := 0; i < 4; i++ {
		if verifMap.used[i] && verifMap.keys[i] == k {
			return verifMap.vals[i], true
		}
	}
	return nil, false
}

func verifMapRange(m *sync.Map, f func(k, v interface{}) bool) {
	var snapK, snapV [4]interface{}
	var snapU [4]bool
	for i := 0; i < 4; i++ {
		snapK[i], snapV[i], snapU[i] = verifMap.keys[i], verifMap.vals[i], verifMap.used[i]
	}
	for i := 0; i < 4; i++ {
		if snapU[i] {
			if !f(snapK[i], snapV[i]) {
				return
			}
		}
	}
}

func verifMapCount() int {
	n := 0
	for i := 0; i < 4; i++ {
		if verifMap.used[i] {
			n++
		}
	}
	return n
}

type verifSrvMon struct {
	lnDetached int
	lnReadable int
	lnClosed   int
	accepts    int
	accepted   int
	sleeps     int
	afterCalls int
	onRounds   func()
}

var verifSrv *verifSrvMon

func verifSrvEpollCtl(epfd, op, fd int, event *epollevent) error {
	if fd == 5 { // the listener
		switch op {
		case 1:
			verifSrv.lnReadable++
		case 2:
			verifSrv.lnDetached++
		}
		return nil
	}
	if op == 1 && verifSrvHook != nil {
		verifSrvHook(1)
	}
	return nil
}

func verifTimeSleep(d time.Duration) { verifSrv.sleeps++ }

// time.After: the timer fires (the channel already holds a value); before that the harness
// lets the world move on (a busy handler may finish)
func verifTimeAfter(d time.Duration) <-chan time.Time {
	verifSrv.afterCalls++
	verifAssume(verifSrv.afterCalls <= 3)
	if verifSrv.onRounds != nil {
		verifSrv.onRounds()
	}
	ch := make(chan time.Time, 1)
	ch <- time.Time{}
	return ch
}

func verifStringsContains(s, sub string) bool { return verifStubBool("err.contains.closed") }

// scripted listener
type verifLn struct {
	script [14]int // 0 end (no pending connection), 1 connection, 2 EMFILE, 3 ENFILE
	pos    int
	nextFd int
}

func (l *verifLn) Accept() (net.Conn, error) {
	verifSrv.accepts++
	verifAssume(l.pos < 14)
	k := l.script[l.pos]
	l.pos++
	switch k {
	case 1:
		nfd := verifNetFD()
		nfd.fd = l.nextFd
		l.nextFd++
		return nfd, nil
	case 2:
		return nil, syscall.EMFILE
	case 3:
		return nil, syscall.ENFILE
	}
	return nil, nil
}
func (l *verifLn) Close() error   { verifSrv.lnClosed++; return nil }
func (l *verifLn) Addr() net.Addr { return verifAddr{} }
func (l *verifLn) Fd() int        { return 5 }

func verifSrvSetup(h OnRequest) (*server, *verifLn) {
	verifK = &verifKMon{}
	verifSrv = &verifSrvMon{}
	verifMap = verifMapT{}
	verifSrvHook = nil
	runner_RunTask_set()
	pollmanager = newManager(1)
	ln := &verifLn{nextFd: 7}
	opts := &options{}
	opts.onRequest = h
	quit := func(err error) {}
	s := newServer(ln, opts, quit)
	err := s.Run()
	verifAssume(err == nil)
	return s, ln
}

func verifSrvHandler(ctx context.Context, c Connection) error {
	atomic.AddInt32(&verifK.handlerRuns, 1)
	l := c.Reader().Len()
	c.Reader().Skip(l)
	return nil
}

// onAccept with a hang-up of the new connection injected after its registration (point 1) or
// just before it is stored in the table (point 2), or not at all: afterwards no inactive
// connection is tracked.
//
//verif:bounds 1 accepted connection; hang-up injected at one of 2 points or not at all
//verif:loop 40
//verif:replay interp
func verifHarness_C13_accepthup() {
	s, ln := verifSrvSetup(verifSrvHandler)
	ln.script[0] = 1
	at := verifPick("hup.at", 0, 2)
	var theConn *connection
	verifSrvHook = func(point int) {
		if point != at {
			return
		}
		// find the connection being accepted through its operator: the only slot in use
		// besides the listener's
		p := s.operator.poll.(*defaultPoll)
		for i := range p.opcache.cache {
			op := p.opcache.cache[i]
			if op.FD == 7 && op.OnHup != nil {
				if op.do() {
					p.appendHup(op)
				}
				p.onhups()
				for verifRunPending() {
				}
			}
		}
	}
	s.OnRead(nil)
	verifSrvHook = nil
	for verifRunPending() {
	}
	_ = theConn
	// every tracked connection is active
	verifMapRange(&s.connections, func(k, v interface{}) bool {
		c := v.(*connection)
		verifAssert(c.IsActive(), "C13/closed-connection-still-tracked")
		return true
	})
	if at == 0 {
		verifAssert(verifMapCount() == 1, "C13/accepted-connection-not-tracked")
	}
	verifReach("end")
}

// Shutdown pass: one idle and one busy connection. Close(ctx) returns nil only with an empty
// table, after the listener was detached and closed; the busy connection is not closed while
// its handler runs; if the context fires first its error is returned.
//
//verif:bounds 2 tracked connections (1 idle, 1 busy: handler running / unread input / unsent output, either order in the table); the busy one finishes after 0..2 waits or never; context fires or not
//verif:loop 40
//verif:replay interp
//verif:blockok
func verifHarness_C13_shutdown() {
	s, ln := verifSrvSetup(verifSrvHandler)
	ln.script[0], ln.script[1] = 1, 1
	s.OnRead(nil)
	s.OnRead(nil)
	for verifRunPending() {
	}
	verifAssume(verifMapCount() == 2)
	// which of the two comes first in the table's iteration order is a choice
	bi := verifPick("busy.index", 0, 1)
	idle := verifMap.vals[1-bi].(*connection)
	busy := verifMap.vals[bi].(*connection)
	// why it is busy: its handler is running (it holds the processing lock), or it has unread
	// input buffered, or output that the kernel has not taken yet
	kind := verifPick("busy.kind", 0, 2)
	switch kind {
	case 0:
		verifAssume(busy.lock(processing))
	case 1:
		busy.inputBuffer.Malloc(3)
		busy.inputBuffer.Flush()
	case 2:
		busy.outputBuffer.Malloc(3)
		busy.outputBuffer.Flush()
	}
	finishAfter := verifPick("busy.finishes.after", 0, 3)
	ctx := &verifDialCtxS{done: make(chan struct{})}
	fireCtx := verifNondetBool("ctx.fires")
	round := 0
	verifSrv.onRounds = func() {
		round++
		verifAssert(busy.IsActive(), "C13/busy-connection-closed-while-handler-runs")
		if round == finishAfter {
			// the handler returns / the buffer drains: the connection becomes idle
			switch kind {
			case 0:
				busy.unlock(processing)
			case 1:
				busy.inputBuffer.Skip(3)
				busy.inputBuffer.Release()
			case 2:
				busy.outputBuffer.Skip(3)
				busy.outputBuffer.Release()
			}
		}
		if fireCtx && round == 2 {
			ctx.err = context.DeadlineExceeded
			close(ctx.done)
		}
	}
	err := s.Close(ctx)
	verifAssert(verifSrv.lnDetached == 1 && verifSrv.lnClosed == 1, "C13/listener-not-detached-and-closed-once")
	verifAssert(!idle.IsActive(), "C13/idle-connection-not-closed")
	if finishAfter == 0 || round < finishAfter {
		// still busy when Shutdown returned: it was left running
		verifAssert(busy.IsActive(), "C13/busy-connection-closed-by-shutdown")
	}
	if err == nil {
		verifAssert(verifMapCount() == 0, "C13/shutdown-nil-with-tracked-connections")
	} else {
		verifAssert(fireCtx && err == context.DeadlineExceeded, "C13/shutdown-error-without-context-error")
	}
	verifReach("end")
}

// Descriptor number reuse across close and accept: connection A (descriptor 7) is closed by the
// user; at the moment the kernel releases the number (inside close(2), i.e. while A's teardown
// is still in progress) the accept loop — another goroutine — may accept connection B, which
// gets the same number. Afterwards B is tracked and alive, A is not tracked.
//
//verif:bounds 1 tracked connection closed by the user; 0..1 new connection accepted with the re-issued descriptor number at the close(2) boundary
//verif:loop 40
//verif:replay interp
func verifHarness_C13_reuse() {
	s, ln := verifSrvSetup(verifSrvHandler)
	ln.script[0] = 1
	s.OnRead(nil)
	for verifRunPending() {
	}
	verifAssume(verifMapCount() == 1)
	var a *connection
	for i := 0; i < 4; i++ {
		if verifMap.used[i] {
			a = verifMap.vals[i].(*connection)
		}
	}
	reissue := verifNondetBool("reissue.at.close")
	accepted := false
	verifCloseHook = func(fd int) {
		if fd == 7 && reissue && !accepted {
			accepted = true
			ln.nextFd = 7
			ln.script[ln.pos] = 1
			s.OnRead(nil)
		}
	}
	a.Close()
	verifCloseHook = nil
	for verifRunPending() {
	}
	verifAssert(!a.IsActive(), "C13/closed-connection-still-active")
	tracked := 0
	verifMapRange(&s.connections, func(k, v interface{}) bool {
		c := v.(*connection)
		verifAssert(c != a, "C13/closed-connection-still-tracked")
		verifAssert(c.IsActive(), "C13/closed-connection-still-tracked")
		tracked++
		return true
	})
	if accepted {
		verifAssert(tracked == 1, "C13/accepted-connection-not-tracked")
	} else {
		verifAssert(tracked == 0, "C13/closed-connection-still-tracked")
	}
	verifReach("end")
}

type verifDialCtxS struct {
	done chan struct{}
	err  error
}

func (c *verifDialCtxS) Deadline() (time.Time, bool)       { return time.Time{}, true }
func (c *verifDialCtxS) Done() <-chan struct{}             { return c.done }
func (c *verifDialCtxS) Err() error                        { return c.err }
func (c *verifDialCtxS) Value(key interface{}) interface{} { return nil }

// Accept under descriptor exhaustion: EMFILE/ENFILE for j rounds, then connections, then "no
// pending connection": the listener is detached exactly once before the retry goroutine
// starts, every accepted connection is tracked, and the listener is registered readable again
// exactly once.
//
//verif:bounds accept script: j in [1,9] failures (EMFILE or ENFILE; the back-off ladder has 7 steps), then 0-2 connections, then none
//verif:param 1 9
//verif:loop 40
//verif:replay interp
func verifHarness_C13_emfile(j int) {
	s, ln := verifSrvSetup(verifSrvHandler)
	pos := 0
	for i := 0; i < j; i++ {
		ln.script[pos] = 2 + verifPick("errno", 0, 1)
		pos++
	}
	nconn := verifPick("conns", 0, 2)
	for i := 0; i < nconn; i++ {
		ln.script[pos] = 1
		pos++
	}
	before := verifSrv.lnReadable
	err := s.OnRead(nil)
	verifAssert(err != nil, "C13/emfile-not-reported")
	verifAssert(verifSrv.lnDetached == 1, "C13/listener-not-detached-before-retry")
	for verifRunPending() {
	}
	verifAssert(verifSrv.lnReadable == before+1, "C13/listener-not-reregistered-exactly-once")
	verifAssert(verifMapCount() == nconn, "C13/accepted-connection-not-tracked")
	verifAssert(verifSrv.lnDetached == 1, "C13/listener-detached-twice")
	verifReach("end")
}
