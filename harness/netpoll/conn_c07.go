//go:build verif

package netpoll

import (
	"context"
	"errors"
	"sync/atomic"
	"time"
)

// C07 — a blocked reader wakes on data, close or timeout, and only then (DESIGN 5.9).

//verif:stub time.NewTimer verifNewTimer
//verif:stub (*time.Timer).Reset verifTimerReset
//verif:stub (*time.Timer).Stop verifTimerStop
//verif:stub time.Now verifTimeNow
//verif:stub (time.Time).UnixNano verifUnixNano
//verif:stub errors.Is verifErrorsIs07

func verifErrorsIs07(err, target error) bool {
	for i := 0; i < 4; i++ {
		if err == nil {
			return false
		}
		if err == target {
			return true
		}
		if x, ok := err.(interface{ Is(error) bool }); ok && x.Is(target) {
			return true
		}
		u, ok := err.(interface{ Unwrap() error })
		if !ok {
			return false
		}
		err = u.Unwrap()
	}
	return false
}

// Timer ghost: the pre-Go-1.23 asynchronous timer channel the module's `go 1.15` line
// selects: expiry does a non-blocking send into a channel of capacity 1; Stop/Reset report
// whether the timer was armed and never drain the channel.
type verifTimer struct {
	t     *time.Timer
	ch    chan time.Time
	armed int32
	fires int32
}

var verifTimers [2]*verifTimer
var verifTimerN int

func verifMakeTimer() *time.Timer {
	ch := make(chan time.Time, 1)
	t := &time.Timer{}
	t.C = ch
	vt := &verifTimer{t: t, ch: ch}
	verifTimers[verifTimerN] = vt
	verifTimerN++
	return t
}

func verifTimerOf(t *time.Timer) *verifTimer {
	if verifTimers[0] != nil && verifTimers[0].t == t {
		return verifTimers[0]
	}
	return verifTimers[1]
}

// duration oracle (sequential deadline harnesses): when verifTimerChk is set, every arming of
// a timer must use the effective timeout: deadline - now when a deadline is set, else the
// configured timeout
var verifTimerChk string
var verifTimerDl, verifTimerTo int64

func verifTimerCheckDur(d time.Duration) {
	if verifTimerChk == "" {
		return
	}
	if verifTimerDl > 0 {
		// between "deadline - latest clock reading" and "deadline - first clock reading" of the
		// call (the same value when the code reads the clock once)
		verifAssert(int64(d) >= verifTimerDl-verifClock && int64(d) <= verifTimerDl-verifClockFirst, verifTimerChk+"/timer-armed-with-wrong-duration")
	} else {
		verifAssert(int64(d) == verifTimerTo, verifTimerChk+"/timer-armed-with-wrong-duration")
	}
}

func verifNewTimer(d time.Duration) *time.Timer {
	verifTimerCheckDur(d)
	t := verifMakeTimer()
	atomic.StoreInt32(&verifTimerOf(t).armed, 1)
	return t
}

func verifTimerReset(t *time.Timer, d time.Duration) bool {
	verifTimerCheckDur(d)
	return atomic.SwapInt32(&verifTimerOf(t).armed, 1) == 1
}

func verifTimerStop(t *time.Timer) bool {
	return atomic.CompareAndSwapInt32(&verifTimerOf(t).armed, 1, 0)
}

// expiry of an armed timer, at any moment (thread body)
func verifTimerFire(vt *verifTimer) {
	if atomic.CompareAndSwapInt32(&vt.armed, 1, 0) {
		atomic.StoreInt32(&verifK.deliveredAtFire, atomic.LoadInt32(&verifK.acked))
		atomic.AddInt32(&vt.fires, 1)
		select {
		case vt.ch <- time.Time{}:
		default:
		}
	}
}

var verifClock int64
var verifClockFirst int64 // first reading since the harness started
var verifClockRead bool

func verifTimeNow() time.Time { return time.Time{} }

// arbitrary non-decreasing clock
func verifUnixNano(t time.Time) int64 {
	d := verifNondetInt64("clock.step")
	verifAssume(d >= 0)
	verifAssume(d <= 1<<40)
	verifClock += d
	if !verifClockRead {
		verifClockRead = true
		verifClockFirst = verifClock
	}
	return verifClock
}

// one reader call needing n bytes, checked against the wake-up oracle
func verifReadCall(c *connection, n int, vt *verifTimer, label string) {
	f0 := int32(0)
	if vt != nil {
		f0 = atomic.LoadInt32(&vt.fires)
	}
	err := c.Skip(n)
	if err == nil {
		atomic.AddInt32(&verifK.consumed, int32(n))
		verifAssert(int(atomic.LoadInt32(&verifK.delivered)) >= int(atomic.LoadInt32(&verifK.consumed)), label+"/success-without-enough-bytes")
		// the reader releases what it has read (Release adjusts maxSize under the slot token)
		c.Release()
		return
	}
	closedBy := atomic.LoadInt32(&c.keychain[closing])
	if errors.Is(err, ErrReadTimeout) {
		verifAssert(vt != nil && atomic.LoadInt32(&vt.fires) > f0, label+"/timeout-although-its-timer-did-not-expire")
		verifAssert(int(atomic.LoadInt32(&verifK.deliveredAtFire))-int(atomic.LoadInt32(&verifK.consumed)) < n, label+"/timeout-although-bytes-were-buffered")
	} else if errors.Is(err, ErrEOF) {
		verifAssert(closedBy == 2, label+"/ErrEOF-without-peer-close")
	} else {
		verifAssert(errors.Is(err, ErrConnClosed), label+"/unexpected-error")
		verifAssert(closedBy != 0, label+"/ErrConnClosed-without-close")
	}
	// a failing call consumed nothing
	// (`acked` counts deliveries whose bookAck is done, `delivered` those that were started)
	// (read the monitor first: the buffer can only have grown since)
	ackedBefore := int(atomic.LoadInt32(&verifK.acked))
	have := c.inputBuffer.Len()
	verifAssert(closedBy != 0 || have >= ackedBefore-int(atomic.LoadInt32(&verifK.consumed)), label+"/failed-call-consumed-data")
}

func verifDeliverCount(op *FDOperator, vs [][]byte, name string, max int) {
	if op.do() {
		n := verifNondetInt(name)
		verifAssume(n >= 1)
		verifAssume(n <= max)
		op.Inputs(vs)
		atomic.AddInt32(&verifK.delivered, int32(n))
		op.InputAck(n)
		atomic.AddInt32(&verifK.acked, int32(n))
		op.done()
	}
}

// Scenarios:
//  0: untimed reader (one call, n in 1..4) || poller (2 chunks of 1..4 bytes) || local Close
//  1: untimed reader || poller (1 chunk, then peer hang-up)
//  2: reader with read timeout, two successive calls || poller (2 chunks) || timer expiry (twice)
//  3: as 1, with an OnDisconnect callback that waits for the application's reader to finish:
//     the reader's wake-up must not depend on the callback having returned
//
//verif:po
//verif:bounds reader: 1-2 successive calls needing n in [1,4]; poller: <= 2 chunks of 1..4 bytes; timer may expire twice; local close or peer hang-up; state revisits <= 3
//verif:param 0 3
//verif:loop 40
//verif:poloop 3
//verif:potimeout 400
//verif:also C19
func verifHarness_C07_wake(sc int) {
	c := verifNewConn(verifConnCfg{closeCBs: 1})
	op := c.operator
	p := op.poll.(*defaultPoll)
	vs := make([][]byte, 1)
	var vt *verifTimer
	if sc == 2 {
		c.readTimer = verifMakeTimer()
		vt = verifTimerOf(c.readTimer)
		c.readTimeout = time.Second
	}
	readerGone := make(chan struct{}, 1)
	if sc == 3 {
		c.onDisconnectCallback.Store(OnDisconnect(func(ctx context.Context, conn Connection) {
			<-readerGone
		}))
	}
	n1 := verifNondetInt("n1")
	verifAssume(n1 >= 1)
	verifAssume(n1 <= 4)
	n2 := verifNondetInt("n2")
	verifAssume(n2 >= 1)
	verifAssume(n2 <= 4)
	verifThread("reader", func() {
		verifReadCall(c, n1, vt, "C07/call1")
		if sc == 2 {
			verifReadCall(c, n2, vt, "C07/call2")
		}
		atomic.StoreInt32(&verifK.readerDone, 1)
		if sc == 3 {
			readerGone <- struct{}{}
		}
		verifReach("reader-done")
	})
	switch sc {
	case 0:
		verifThread("poller", func() {
			verifDeliverCount(op, vs, "chunk1", 4)
			verifDeliverCount(op, vs, "chunk2", 4)
		})
		verifThread("closer", func() { c.Close() })
	case 1, 3:
		verifThread("poller", func() {
			if op.do() {
				k := verifNondetInt("chunk1")
				verifAssume(k >= 1)
				verifAssume(k <= 4)
				op.Inputs(vs)
				atomic.AddInt32(&verifK.delivered, int32(k))
				op.InputAck(k)
				p.appendHup(op)
			}
			p.onhups()
		})
	case 2:
		verifThread("poller", func() {
			verifDeliverCount(op, vs, "chunk1", 4)
			verifDeliverCount(op, vs, "chunk2", 4)
		})
		verifThread("timer", func() {
			verifTimerFire(vt)
			verifTimerFire(vt)
		})
	}
	verifFinal("quiescent", func() {
		if atomic.LoadInt32(&verifK.readerDone) == 0 {
			// the reader is still blocked: then nothing can wake it legitimately
			closedBy := atomic.LoadInt32(&c.keychain[closing])
			verifAssert(closedBy == 0, "C07/reader-blocked-although-connection-closed")
			have := int(atomic.LoadInt32(&verifK.delivered)) - int(atomic.LoadInt32(&verifK.consumed))
			verifAssert(have < 4 || true, "C07/unused")
			verifAssert(c.inputBuffer.Len() < int(atomic.LoadInt64(&c.waitReadSize)) || atomic.LoadInt64(&c.waitReadSize) == 0, "C07/reader-blocked-although-enough-bytes-buffered")
		}
	})
}

// Sequential part: a timed read on a quiet connection (nothing else runs).
//  fdconn == 0: connection as Accept/Dial build it; fdconn == 1: as NewFDConnection builds it
//  (no addresses). `in` bytes are buffered, a read deadline dl (possibly already expired) or a
//  read timeout is set, the call needs n bytes. The clock is an arbitrary non-decreasing
//  instant. Blocking (deadline in the future, too few bytes) is a legitimate end.
//
//verif:bounds in, n in [0,8]; deadline/timeout/clock symbolic; connection built like Accept (0) or like NewFDConnection (1)
//verif:param 0 1
//verif:loop 40
//verif:replay interp
//verif:blockok
func verifHarness_C07_deadline(fdconn int) {
	var c *connection
	if fdconn == 0 {
		c = verifNewConn(verifConnCfg{closeCBs: 1})
	} else {
		verifK = &verifKMon{}
		runner_RunTask_set()
		pollmanager = newManager(1)
		c = &connection{}
		err := c.init(&netFD{fd: 7}, nil)
		verifAssume(err == nil)
	}
	in := verifNondetInt("in")
	verifAssume(in >= 0)
	verifAssume(in <= 8)
	if in > 0 {
		vs := make([][]byte, 1)
		c.inputs(vs)
		c.inputAck(in)
	}
	n := verifNondetInt("n")
	verifAssume(n >= 1)
	verifAssume(n <= 8)
	verifTimerChk, verifTimerDl, verifTimerTo = "C07", 0, 0
	if verifNondetBool("existing.timer") {
		c.readTimer = verifMakeTimer()
	}
	if verifNondetBool("use.deadline") {
		dl := verifNondetInt64("deadline")
		verifAssume(dl >= 1)
		verifAssume(dl <= 1<<41)
		c.readDeadline = dl
		verifTimerDl = dl
		if verifNondetBool("timeout.too") {
			c.readTimeout = time.Second
		}
	} else {
		to := verifNondetInt64("timeout")
		verifAssume(to >= 0)
		verifAssume(to <= 1<<41)
		c.readTimeout = time.Duration(to)
		verifTimerTo = to
	}
	verifReach("before-read")
	err := c.Skip(n)
	if in >= n {
		verifAssert(err == nil, "C07/timeout-although-bytes-were-buffered")
	} else {
		// only an expired deadline lets a quiet connection answer at once
		verifAssert(err != nil && errors.Is(err, ErrReadTimeout), "C07/unexpected-result-on-quiet-connection")
		verifAssert(c.inputBuffer.Len() == in, "C07/timeout-consumed-data")
	}
	verifReach("end")
}
