//go:build verif

package netpoll

import (
	"sync/atomic"
	"syscall"
	"unsafe"
)

// C11 — defaultPoll.handler on symbolic event words and kernel answers (DESIGN 5.13).
//
// The kernel is a ghost: per descriptor a count of unread bytes; readv/sendmsg/Recvmsg/Read
// answer with solver-chosen counts and errnos. Flag words and kernel answers are independent
// except for "unread bytes ⇒ EPOLLIN is reported" (level-triggered epoll).

//verif:stub github.com/cloudwego/netpoll.readv verifK11Readv
//verif:stub github.com/cloudwego/netpoll.sendmsg verifK11Sendmsg
//verif:stub github.com/cloudwego/netpoll.EpollCtl verifK11EpollCtl
//verif:stub syscall.Recvmsg verifK11Recvmsg
//verif:stub syscall.Read verifK11Read
//verif:stub syscall.Close verifK11Close
//verif:stub syscall.Write verifK11Write
//verif:stub errors.Is verifErrorsIs11
//verif:stub github.com/cloudwego/netpoll.EpollWait verifK11EpollWait

const (
	l11Inputs = iota + 1
	l11InputAck
	l11Outputs
	l11OutputAck
	l11OnHup
	l11OnRead
	l11OnWrite
	l11CtlDel
	l11Readv
	l11Sendmsg
	l11Close
)

type verifEv11 struct {
	kind, fd, arg int
}

type verifKern11 struct {
	log      []verifEv11
	pending  [3]int // unread bytes per descriptor index
	rdErr    [3]bool
	evfd     [8]byte
	evfdRead int
	closes   []int
	calls    int
}

var verifK11 *verifKern11

func (k *verifKern11) add(kind, fd, arg int) { k.log = append(k.log, verifEv11{kind, fd, arg}) }

func verifFdIdx(fd int) int { return fd - 10 }

func verifK11Readv(fd int, bs [][]byte, ivs []syscall.Iovec) (int, error) {
	k := verifK11
	i := verifFdIdx(fd)
	k.calls++
	verifAssume(k.calls <= 6) // bound on kernel calls per harness
	total := 0
	for j := range bs {
		total += len(bs[j])
	}
	switch verifPick("readv.kind", 0, 3) {
	case 0: // data
		n := verifStubInt("readv.n")
		verifAssume(n >= 1)
		verifAssume(n <= total)
		verifAssume(n <= k.pending[i])
		k.pending[i] -= n
		k.add(l11Readv, fd, n)
		return n, nil
	case 1: // end of stream: only when nothing is unread
		verifAssume(k.pending[i] == 0)
		k.add(l11Readv, fd, 0)
		return 0, nil
	case 2: // would block / interrupted
		if verifStubBool("readv.eintr") {
			k.add(l11Readv, fd, -2)
			return -1, syscall.EINTR
		}
		verifAssume(k.pending[i] == 0)
		k.add(l11Readv, fd, -1)
		return -1, syscall.EAGAIN
	}
	k.rdErr[i] = true
	k.add(l11Readv, fd, -3)
	return -1, syscall.ECONNRESET
}

func verifK11Sendmsg(fd int, bs [][]byte, ivs []syscall.Iovec, zerocopy bool) (int, error) {
	k := verifK11
	k.calls++
	verifAssume(k.calls <= 6)
	total := 0
	for j := range bs {
		total += len(bs[j])
	}
	switch verifPick("sendmsg.kind", 0, 2) {
	case 0:
		n := verifStubInt("sendmsg.n")
		verifAssume(n >= 0)
		verifAssume(n <= total)
		k.add(l11Sendmsg, fd, n)
		return n, nil
	case 1:
		k.add(l11Sendmsg, fd, -1)
		return -1, syscall.EAGAIN
	}
	k.add(l11Sendmsg, fd, -3)
	return -1, syscall.EPIPE
}

func verifK11EpollCtl(epfd, op, fd int, event *epollevent) error {
	if op == 2 {
		verifK11.add(l11CtlDel, fd, 0)
	}
	return nil
}

func verifK11Recvmsg(fd int, p, oob []byte, flags int) (n, oobn int, recvflags int, from syscall.Sockaddr, err error) {
	if verifStubBool("errqueue.empty") {
		return 0, 0, 0, nil, syscall.EAGAIN
	}
	return 0, 0, 0, nil, syscall.ECONNRESET
}

// set by the trigger harness: a complete Trigger call from another goroutine may run just
// before and just after the kernel performs the eventfd read
var verifTrig11 *defaultPoll

func verifK11Read(fd int, p []byte) (int, error) {
	k := verifK11
	if tp := verifTrig11; tp != nil {
		if verifNondetBool("trigger.before.read") {
			tp.Trigger()
		}
		defer func() {
			if verifNondetBool("trigger.after.read") {
				tp.Trigger()
			}
		}()
	}
	k.evfdRead++
	for i := 0; i < 8 && i < len(p); i++ {
		p[i] = k.evfd[i]
		k.evfd[i] = 0
	}
	return 8, nil
}

func verifK11Write(fd int, p []byte) (int, error) {
	// eventfd: 64-bit host-endian add
	k := verifK11
	var carry int
	for i := 0; i < 8; i++ {
		s := int(k.evfd[i]) + int(p[i]) + carry
		k.evfd[i] = byte(s)
		carry = s >> 8
	}
	return 8, nil
}

func verifK11Close(fd int) error {
	verifK11.closes = append(verifK11.closes, fd)
	verifK11.add(l11Close, fd, 0)
	return nil
}

func verifErrorsIs11(err, target error) bool {
	for i := 0; i < 4; i++ {
		if err == nil {
			return false
		}
		if err == target {
			return true
		}
		if x, ok := err.(interface{ Is(error) bool }); ok && x.Is(target) {
			return true
		}
		u, ok := err.(interface{ Unwrap() error })
		if !ok {
			return false
		}
		err = u.Unwrap()
	}
	return false
}

// recorder operator for descriptor 10+i
func verifOp11(p *defaultPoll, i int, conn bool) *FDOperator {
	k := verifK11
	fd := 10 + i
	op := &FDOperator{FD: fd, state: 1}
	op.poll = p
	op.OnHup = func(Poll) error { k.add(l11OnHup, fd, 0); return nil }
	if conn {
		op.Inputs = func(vs [][]byte) [][]byte {
			k.add(l11Inputs, fd, 0)
			vs[0] = verifNewBlock("inbuf", 64)
			return vs[:1]
		}
		op.InputAck = func(n int) error { k.add(l11InputAck, fd, n); return nil }
		op.Outputs = func(vs [][]byte) ([][]byte, bool) {
			k.add(l11Outputs, fd, 0)
			if verifNondetBool("outputs.empty") {
				return vs[:0], false
			}
			vs[0] = verifNewBlock("outbuf", 64)
			return vs[:1], false
		}
		op.OutputAck = func(n int) error { k.add(l11OutputAck, fd, n); return nil }
	} else {
		op.OnRead = func(Poll) error { k.add(l11OnRead, fd, 0); return nil }
		op.OnWrite = func(Poll) error { k.add(l11OnWrite, fd, 0); return nil }
	}
	return op
}

func verifPoll11(size int) *defaultPoll {
	verifK11 = &verifKern11{}
	p := &defaultPoll{}
	p.fd = 3
	p.wop = &FDOperator{FD: 4, state: 1}
	p.buf = make([]byte, 8)
	p.opcache = newOperatorCache()
	p.Reset = p.reset
	p.Handler = p.handler
	p.Reset(size, 2)
	return p
}

const (
	ev11IN    = 0x1
	ev11OUT   = 0x4
	ev11ERR   = 0x8
	ev11HUP   = 0x10
	ev11RDHUP = 0x2000
)

// oracle over the log for descriptor fd, given its flag word and initial unread count
func verifCheck11(fd int, flags uint32, pending0 int, wasInuse bool) {
	k := verifK11
	var nInputs, nAck, nHup, nDel, nOut, nOutAck, lastReadv, lastSend int
	var hupAt, delAt, lastAckAt, lastCbAt int = -1, -1, -1, -1
	sumAck, sumReadv := 0, 0
	sawReadErr := false
	lastReadv, lastSend = -100, -100
	for j := 0; j < len(k.log); j++ {
		e := k.log[j]
		if e.fd != fd {
			continue
		}
		switch e.kind {
		case l11Readv:
			lastReadv = e.arg
			if e.arg > 0 {
				sumReadv += e.arg
			}
			if e.arg == -3 || e.arg == 0 {
				sawReadErr = true
			}
		case l11Sendmsg:
			lastSend = e.arg
			if e.arg == -3 {
				sawReadErr = true // a hard send error: the hang-up is an error report
			}
		case l11Inputs:
			nInputs++
			lastCbAt = j
			verifAssert(nOut == 0 && nHup == 0, "C11/input-after-output-or-hangup")
		case l11InputAck:
			nAck++
			lastAckAt = j
			lastCbAt = j
			// a failed or would-block read acknowledges nothing (the wrapper passes the raw -1 on
			// a hard error, which connection.inputAck treats like 0)
			if lastReadv > 0 {
				verifAssert(e.arg == lastReadv, "C11/inputack-count-differs-from-kernel")
				sumAck += e.arg
			} else {
				verifAssert(e.arg <= 0, "C11/inputack-count-differs-from-kernel")
			}
		case l11Outputs:
			nOut++
			lastCbAt = j
		case l11OutputAck:
			nOutAck++
			lastCbAt = j
			if lastSend > 0 {
				verifAssert(e.arg == lastSend, "C11/outputack-count-differs-from-kernel")
			} else {
				verifAssert(e.arg <= 0, "C11/outputack-count-differs-from-kernel")
			}
		case l11OnRead, l11OnWrite:
			lastCbAt = j
		case l11OnHup:
			nHup++
			hupAt = j
		case l11CtlDel:
			nDel++
			delAt = j
		}
	}
	if !wasInuse {
		verifAssert(nInputs+nAck+nOut+nOutAck+nHup+nDel == 0, "C11/callback-for-slot-not-in-use")
		return
	}
	verifAssert(nHup <= 1, "C11/hangup-reported-twice")
	// a hang-up flagged by the kernel is reported in this dispatch unless bytes were read for
	// the descriptor (then the level-triggered flag comes back with the next batch)
	// (after a hard read error inside the drain loop the code reports on the next round: the
	// flag is level-triggered and the next read fails again; not asserted here)
	if flags&(ev11HUP|ev11RDHUP) != 0 && sumReadv == 0 && !sawReadErr {
		verifAssert(nHup == 1, "C11/hangup-flag-not-reported")
	}
	verifAssert(sumAck == sumReadv, "C11/delivered-bytes-differ-from-kernel")
	if nHup == 1 {
		verifAssert(nDel >= 1 && delAt < hupAt, "C11/hangup-before-deregistration")
		verifAssert(lastAckAt < hupAt, "C11/inputack-after-hangup")
		verifAssert(lastCbAt < delAt || lastCbAt == -1, "C11/callback-after-detach")
		// drain-before-hang-up (the HUP/RDHUP-flag path): no unread bytes left unless a kernel
		// call failed hard (then the report is an error report) or the error flag was set
		verifAssert(k.pending[verifFdIdx(fd)] == 0 || sawReadErr || flags&ev11IN == 0 || flags&ev11ERR != 0, "C11/hangup-with-unread-bytes")
	}
}

// One batch of one or two events with arbitrary flag words over connection-style operators.
//
//verif:bounds batch of 1 event, flag word arbitrary 32-bit, <= 6 kernel calls, unread bytes symbolic <= 1 MB; operators are recorders
//verif:loop 40
//verif:replay interp
func verifHarness_C11_handler1() { verifHandler11(1) }

//verif:bounds batch of 2 events, both flag words arbitrary 32-bit, <= 6 kernel calls in total
//verif:tier thorough
//verif:loop 60
//verif:replay interp
func verifHarness_C11_handler2() { verifHandler11(2) }

// A batch of two: the first event is an ordinary readable connection with bytes to read, the
// second one has an arbitrary flag word. Nothing decided for the first may leak into the
// dispatch of the second (per-event state of the loop).
//
//verif:bounds batch of 2 events: first = EPOLLIN with 1..64 unread bytes, second = arbitrary 32-bit flag word; <= 6 kernel calls in total
//verif:loop 60
//verif:replay interp
func verifHarness_C11_pair() { verifHandler11(-2) }

func verifHandler11(n int) {
	firstFixed := false
	if n < 0 {
		n = -n
		firstFixed = true
	}
	p := verifPoll11(2)
	k := verifK11
	events := make([]epollevent, n)
	ops := make([]*FDOperator, n)
	flags := make([]uint32, n)
	pend := make([]int, n)
	inuse := make([]bool, n)
	for i := 0; i < n; i++ {
		ops[i] = verifOp11(p, i, true)
		flags[i] = verifNondetUint32("flags")
		pend[i] = verifNondetInt("pending")
		verifAssume(pend[i] >= 0)
		verifAssume(pend[i] <= 1<<20)
		// level-triggered: unread bytes imply EPOLLIN
		verifAssume(pend[i] == 0 || flags[i]&ev11IN != 0)
		if firstFixed && i == 0 {
			verifAssume(flags[i] == ev11IN)
			verifAssume(pend[i] >= 1)
			verifAssume(pend[i] <= 64)
		}
		k.pending[i] = pend[i]
		inuse[i] = verifNondetBool("inuse")
		if firstFixed && i == 0 {
			verifAssume(inuse[i])
		}
		if !inuse[i] {
			ops[i].state = 0
		}
		events[i].events = flags[i]
		p.setOperator(unsafe.Pointer(&events[i].data), ops[i])
	}
	closed := p.handler(events)
	verifAssert(!closed, "C11/handler-reports-closed-without-close")
	for verifRunPending() {
	}
	for i := 0; i < n; i++ {
		verifCheck11(10+i, flags[i], pend[i], inuse[i])
		if inuse[i] {
			verifAssert(ops[i].state == 1, "C11/slot-token-not-returned")
		}
	}
	verifAssert(len(p.hups) == 0, "C11/hangups-left-queued")
	verifReach("end")
}

// Non-connection operators (listener style): OnRead/OnWrite are called, the token returns.
//
//verif:bounds 1 event, arbitrary flags, listener-style operator
//verif:loop 40
//verif:replay interp
func verifHarness_C11_onread() {
	p := verifPoll11(2)
	events := make([]epollevent, 1)
	op := verifOp11(p, 0, false)
	flags := verifNondetUint32("flags")
	events[0].events = flags
	p.setOperator(unsafe.Pointer(&events[0].data), op)
	p.handler(events)
	for verifRunPending() {
	}
	k := verifK11
	nRead, nWrite := 0, 0
	for j := 0; j < len(k.log); j++ {
		if k.log[j].kind == l11OnRead {
			nRead++
		}
		if k.log[j].kind == l11OnWrite {
			nWrite++
		}
	}
	if flags&ev11IN != 0 {
		verifAssert(nRead == 1, "C11/onread-not-called-once")
	} else {
		verifAssert(nRead == 0, "C11/onread-without-readable")
	}
	verifAssert(op.state == 1, "C11/slot-token-not-returned")
	verifReach("end")
}

// Wake-up descriptor: t Trigger calls (t < 256) and c in {0,1} Close calls; the loop exits iff
// Close was called, releasing exactly the eventfd and the epoll descriptor.
//
//verif:bounds Trigger count t in [0,255] (symbolic through the counter word), Close in {0,1}
//verif:loop 12
//verif:replay interp
func verifHarness_C11_wakeup() {
	p := verifPoll11(2)
	k := verifK11
	t := verifNondetInt("triggers")
	verifAssume(t >= 0)
	verifAssume(t <= 255)
	// t effective Trigger writes of {0,0,0,0,0,0,0,1}: adds t<<56
	k.evfd[7] = byte(t)
	doClose := verifNondetBool("close")
	if doClose {
		p.Close()
	}
	events := make([]epollevent, 1)
	events[0].events = ev11IN
	p.setOperator(unsafe.Pointer(&events[0].data), p.wop)
	p.trigger = 1
	closed := p.handler(events)
	verifAssert(closed == doClose, "C11/loop-exit-iff-close")
	verifAssert(p.trigger == 0, "C11/trigger-flag-not-cleared")
	if doClose {
		verifAssert(len(k.closes) == 2 && k.closes[0] == 4 && k.closes[1] == 3, "C11/close-does-not-release-exactly-own-descriptors")
	} else {
		verifAssert(len(k.closes) == 0, "C11/descriptor-closed-without-close")
	}
	verifAssert(p.wop.state == 1, "C11/slot-token-not-returned")
	verifReach("end")
}

// Trigger against the loop that is consuming an earlier wake-up: up to two complete Trigger
// calls from other goroutines land around the handler's eventfd read (before it, after it,
// after the handler). Oracle ("Trigger wakes a blocked loop"): once the handler is done and the
// loop goes back to sleep, one more Trigger leaves the eventfd readable — the wake-up flag and
// the eventfd counter never get out of step (flag set with an empty eventfd would make every
// later Trigger return without writing).
//
//verif:bounds one wake-up dispatch; 0..2 concurrent Trigger calls at the boundaries of the eventfd read, 1 Trigger afterwards
//verif:loop 12
//verif:replay interp
func verifHarness_C11_trigger() {
	p := verifPoll11(2)
	k := verifK11
	// the wake-up being consumed: one effective Trigger
	verifAssert(p.Trigger() == nil, "C11/trigger-error")
	verifAssert(k.evfd[7] == 1, "C11/first-trigger-did-not-write-the-eventfd")
	events := make([]epollevent, 1)
	events[0].events = ev11IN
	p.setOperator(unsafe.Pointer(&events[0].data), p.wop)
	verifTrig11 = p
	closed := p.handler(events)
	verifTrig11 = nil
	verifAssert(!closed, "C11/loop-exit-iff-close")
	// the loop is about to block again; a wake-up that is still pending is fine, a set flag
	// without a pending wake-up is not
	flag := atomic.LoadUint32(&p.trigger)
	pending := false
	for i := 0; i < 8; i++ {
		if k.evfd[i] != 0 {
			pending = true
		}
	}
	verifAssert(flag == 0 || pending, "C11/trigger-flag-set-but-eventfd-empty")
	verifAssert(p.Trigger() == nil, "C11/trigger-error")
	woken := false
	for i := 0; i < 8; i++ {
		if k.evfd[i] != 0 {
			woken = true
		}
	}
	verifAssert(woken, "C11/trigger-does-not-wake-the-blocked-loop")
	verifReach("end")
}

// The Wait loop around the handler: the batch handed to the handler is the batch the kernel
// reported, also when it fills the event array exactly (the array grows for the *next* wait).
// The kernel ghost reports n entries (1, size-1 or size of the current array), marks the first
// and the last one, and the recording handler checks the marks.
type verifWait11 struct {
	waits   int
	handled int
	lastN   int
}

var verifW11 *verifWait11

func verifK11EpollWait(epfd int, events []epollevent, msec int) (int, error) {
	w := verifW11
	w.waits++
	if w.waits > 2 {
		return -1, syscall.EBADF
	}
	size := len(events)
	n := size
	switch verifPick("epollwait.n", 0, 2) {
	case 0:
		n = 1
	case 1:
		n = size - 1
	}
	events[0].events = 0x55
	events[n-1].events = 0x55
	w.lastN = n
	return n, nil
}

//verif:bounds 2 wake-ups; batch sizes 1, size-1, size of the event array (128, then 256 after growth); recording handler
//verif:loop 600
//verif:replay interp
func verifHarness_C11_wait() {
	verifK11 = &verifKern11{}
	verifW11 = &verifWait11{}
	p := &defaultPoll{}
	p.fd = 3
	p.opcache = newOperatorCache()
	p.Reset = p.reset
	p.Handler = func(evs []epollevent) bool {
		w := verifW11
		w.handled++
		verifAssert(len(evs) == w.lastN, "C11/batch-length-differs-from-kernel")
		verifAssert(evs[0].events == 0x55 && evs[len(evs)-1].events == 0x55, "C11/batch-replaced-before-dispatch")
		return false
	}
	err := p.Wait()
	verifAssert(err != nil, "C11/wait-returned-nil-after-kernel-error")
	verifAssert(verifW11.handled == 2, "C11/batch-not-dispatched")
	verifReach("end")
}
