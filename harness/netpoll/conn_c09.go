//go:build verif

package netpoll

import (
	"context"
	"sync/atomic"
	"time"
)

// C09 — lifecycle callbacks run in the documented order (DESIGN 5.11).

func verifHandlerC09(ctx context.Context, conn Connection) error {
	n := atomic.AddInt32(&verifK.inHandler, 1)
	verifAssert(n == 1, "C06/two-handler-invocations-at-once")
	verifAssert(atomic.LoadInt32(&verifK.connectDone) == 1, "C09/OnRequest-before-OnConnect-finished")
	verifAssert(atomic.LoadInt32(&verifK.cbRuns) == 0, "C09/OnRequest-after-close-callbacks")
	atomic.AddInt32(&verifK.handlerRuns, 1)
	l := conn.Reader().Len()
	conn.Reader().Skip(l)
	atomic.AddInt32(&verifK.inHandler, -1)
	return nil
}

func verifOnPrepareCB(c Connection) context.Context {
	// nothing may have been registered with the poller before OnPrepare returns
	verifAssert(atomic.LoadInt32(&verifK.ctlAdd) == 0, "C09/registered-before-OnPrepare-finished")
	atomic.StoreInt32(&verifK.prepared, 2)
	return verifCtxT{}
}

// a context value the encoder can compare (context.Background() is opaque to it)
type verifCtxT struct{}

func (verifCtxT) Deadline() (time.Time, bool)       { return time.Time{}, false }
func (verifCtxT) Done() <-chan struct{}             { return nil }
func (verifCtxT) Err() error                        { return nil }
func (verifCtxT) Value(key interface{}) interface{} { return nil }

func verifNewConnC09(withConnect, withDisconnect bool) *connection {
	verifK = &verifKMon{}
	runner_RunTask_set()
	pollmanager = newManager(1)
	nfd := verifNetFD()
	c := &connection{}
	opts := &options{}
	opts.onRequest = verifHandlerC09
	opts.onPrepare = verifOnPrepareCB
	if withConnect {
		opts.onConnect = verifOnConnectCB
	} else {
		verifK.connectDone = 1
	}
	if withDisconnect {
		opts.onDisconnect = verifOnDisconnectCB
	}
	err := c.init(nfd, opts)
	verifAssume(err == nil)
	verifAssert(atomic.LoadInt32(&verifK.prepared) == 2, "C09/OnPrepare-not-run")
	c.AddCloseCallback(verifCloseCBC09(c))
	verifK.cb[1] = -1
	return c
}

// close callback for C09: OnDisconnect (when the peer closed a connection whose OnConnect ran
// or that has none) has run exactly once before it; nothing starts after it
func verifCloseCBC09(c *connection) CloseCallback {
	return func(Connection) error {
		n := atomic.AddInt32(&verifK.cb[0], 1)
		verifAssert(n == 1, "C05/close-callback-ran-twice")
		verifAssert(atomic.LoadInt32(&verifK.inHandler) == 0, "C05/close-callback-while-handler-runs")
		verifAssert(atomic.LoadInt32(&verifK.inConnect) == 0, "C09/close-callback-while-OnConnect-runs")
		if atomic.LoadInt32(&verifK.wantDisc) == 1 && atomic.LoadInt32(&verifK.connectDone) == 1 {
			verifAssert(atomic.LoadInt32(&verifK.disconnects) == 1, "C09/close-callbacks-before-OnDisconnect")
		}
		atomic.AddInt32(&verifK.cbRuns, 1)
		return nil
	}
}

// Scenarios (OnPrepare is checked in the sequential prologue of every scenario):
//  0: OnConnect + OnDisconnect + OnRequest; accept path runs onConnect while the poller
//     delivers first data and then reports the peer's hang-up (at any point relative to
//     OnConnect: before, during, after)
//  1: OnDisconnect + OnRequest, no OnConnect; delivery + hang-up
//  2: as 0 but hang-up only (no data)
//
//verif:po
//verif:bounds accept thread (onConnect) || poller (0-1 delivery, hang-up) ; <= 3 task instances; state revisits <= 3
//verif:param 0 2
//verif:loop 40
//verif:poloop 3
//verif:potimeout 400
//verif:also C19
func verifHarness_C09_order(sc int) {
	var c *connection
	switch sc {
	case 0, 2:
		c = verifNewConnC09(true, true)
	case 1:
		c = verifNewConnC09(false, true)
	}
	atomic.StoreInt32(&verifK.wantDisc, 1)
	op := c.operator
	p := op.poll.(*defaultPoll)
	vs := make([][]byte, 1)
	if sc != 1 {
		verifThread("accept", func() {
			c.onConnect()
			verifReach("accepted")
		})
	}
	verifThread("poller", func() {
		if op.do() {
			if sc != 2 {
				n := verifNondetInt("chunk")
				verifAssume(n >= 1)
				verifAssume(n <= 4)
				op.Inputs(vs)
				op.InputAck(n)
			}
			p.appendHup(op)
		}
		p.onhups()
		verifReach("hup")
	})
	verifFinal("quiescent", func() {
		// peer closed; OnConnect has run (or there is none): OnDisconnect ran exactly once
		if atomic.LoadInt32(&verifK.connectDone) == 1 {
			verifAssert(atomic.LoadInt32(&verifK.disconnects) == 1, "C09/OnDisconnect-not-run-exactly-once")
		}
		verifAssert(atomic.LoadInt32(&verifK.cb[0]) == 1, "C05/close-callback-not-run-exactly-once")
	})
}
