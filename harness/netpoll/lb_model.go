//go:build verif

package netpoll

// Reference model for LinkBuffer (DESIGN 5.1): a FIFO byte queue kept as a rope of
// snapshots. All committed segments stay in `segs`; `consumed` marks how far readers got,
// so readable = flushed - consumed. Pending (malloc'd, unflushed) segments are in `pend`.
// Branching on symbolic values is avoided with verifIte* so the reference itself does not
// multiply paths.


type verifLease struct {
	h      int
	block  int
	live   bool
	what   string
	ofSlice int // index of slice reader owning it, -1 = parent
}

type verifSliceReader struct {
	r        *LinkBuffer
	start    int // absolute stream position of its first byte
	n        int
	consumed int
	released bool
	holds    []int
}

type verifLB struct {
	b        *LinkBuffer
	segs     int // rope: committed stream
	flushed  int
	consumed int
	pend     int // rope: pending stream
	pendN    int
	pendBin  bool // WriteBinary/WriteString used in the current pending batch
	pendDir  bool // WriteDirect used in the current pending batch
	window   bool // between Append and the next Flush (reads forbidden, only Len+MallocLen compared)
	leases   []verifLease
	slices   []verifSliceReader
	ops       int
	maxLen    int
	windowLen int
	callerMem [][]byte
	argLo     int
	argHi     int
	lastWD, lastRemain int
	maxW      int // upper bound of writer-op sizes (0 = verifMaxLen)
}

func (v *verifLB) wmax() int {
	if v.maxW > 0 {
		return v.maxW
	}
	return verifMaxLen
}

// sizes are kept at or below mallocMax (8 MB) here; the >8 MB allocator bypass has its own harness
const verifMaxLen = mallocMax

func verifNewLB(size int) *verifLB {
	v := &verifLB{}
	v.b = NewLinkBuffer(size)
	v.segs = verifRopeNew()
	v.pend = verifRopeNew()
	v.argLo, v.argHi = -1, verifMaxLen
	return v
}

func (v *verifLB) readable() int { return v.flushed - v.consumed }

// refByte returns byte j (absolute stream position) of the committed stream.
func (v *verifLB) refByte(j int) byte { return verifRopeByte(v.segs, j) }

// matches: p equals the committed stream at [pos, pos+len(p)).
func (v *verifLB) matches(p []byte, pos int) bool { return verifRopeMatch(v.segs, pos, p) }

func (v *verifLB) checkLens(label string) {
	if v.window {
		verifAssert(v.b.Len()+v.b.MallocLen() == v.readable()+v.pendN, label+"/len+malloclen")
		return
	}
	verifAssert(v.b.Len() == v.readable(), label+"/len")
	verifAssert(v.b.MallocLen() == v.pendN, label+"/malloclen")
}

func (v *verifLB) addLease(p []byte, what string, owner int) {
	if len(p) == 0 {
		return
	}
	id := verifBlockID(p)
	verifAssert(verifGhostGet("pool.freed", id) == 0, "C02/result-in-freed-block")
	verifGhostSet("lease", id, verifGhostGet("lease", id)+1)
	v.leases = append(v.leases, verifLease{h: verifSnapshot(p), block: id, live: true, what: what, ofSlice: owner})
}

func (v *verifLB) endLeases(owner int) {
	for i := range v.leases {
		if v.leases[i].live && v.leases[i].ofSlice == owner {
			v.leases[i].live = false
			id := v.leases[i].block
			verifGhostSet("lease", id, verifGhostGet("lease", id)-1)
		}
	}
}

// checkLeases: every live zero-copy result still has its content (C02).
func (v *verifLB) checkLeases() {
	for i := range v.leases {
		if v.leases[i].live {
			verifAssert(verifUnchanged(v.leases[i].h), "C02/lease-content-changed")
			verifAssert(verifGhostGet("pool.freed", v.leases[i].block) == 0, "C02/lease-block-freed")
		}
	}
}

// ------------------------------------------------------------------ writer operations

func (v *verifLB) opMalloc() { v.opMallocR(-2, v.wmax()) }

func (v *verifLB) opMallocR(lo, hi int) {
	n := verifNondetInt("malloc.n")
	verifAssume(n >= lo)
	verifAssume(n <= hi)
	buf, err := v.b.Malloc(n)
	verifAssert(err == nil, "C01/malloc-err")
	if n <= 0 {
		verifAssert(len(buf) == 0, "C01/malloc-nonpositive")
		return
	}
	verifAssert(len(buf) == n, "C01/malloc-len")
	verifFill(buf)
	verifRopeAppend(v.pend, buf)
	v.pendN += n
}

func (v *verifLB) opWriteBinary(asString bool) { v.opWriteBinaryR(asString, 0, v.wmax()) }

func (v *verifLB) opWriteBinaryR(asString bool, lo, hi int) {
	n := verifNondetInt("wb.n")
	verifAssume(n >= lo)
	verifAssume(n <= hi)
	// the caller's slice may have spare capacity behind its length: that room is the caller's too
	extra := verifNondetInt("wb.extra")
	verifAssume(extra >= 0)
	verifAssume(extra <= 64)
	p := verifNondetBytes("wb", n+extra)[:n]
	var wn int
	var err error
	if asString {
		wn, err = v.b.WriteString(verifBytesStr(p))
	} else {
		wn, err = v.b.WriteBinary(p)
	}
	verifAssert(err == nil && wn == n, "C01/writebinary-ret")
	verifAssert(!verifWroteCaller(p), "C03/wrote-caller-memory")
	if n == 0 {
		return
	}
	verifRopeAppend(v.pend, p)
	v.pendN += n
	v.pendBin = true
	v.callerMem = append(v.callerMem, p)
}

func (v *verifLB) opWriteByte() {
	c := verifNondetByte("wbyte")
	err := v.b.WriteByte(c)
	verifAssert(err == nil, "C01/writebyte-err")
	verifRopeAppendByte(v.pend, c)
	v.pendN++
}

// WriteDirect(p, remain): insert p so that the last `remain` pending bytes come after it.
// Contract: not mixed with WriteBinary/WriteString in the same batch; 0 <= remain <= pending.
func (v *verifLB) opWriteDirect() { v.opWriteDirectR(0, v.wmax(), 0, verifMaxLen) }

func (v *verifLB) opWriteDirectR(nlo, nhi, rlo, rhi int) {
	verifAssume(!v.pendBin)
	n := verifNondetInt("wd.n")
	verifAssume(n >= nlo)
	verifAssume(n <= nhi)
	remain := verifNondetInt("wd.remain")
	verifAssume(remain >= rlo)
	verifAssume(remain <= rhi)
	verifAssume(remain <= v.pendN)
	verifAssume(!v.window)
	v.lastWD, v.lastRemain = n, remain
	extra := verifNondetInt("wd.extra")
	verifAssume(extra >= 0)
	verifAssume(extra <= 64)
	p := verifNondetBytes("wd", n+extra)[:n]
	err := v.b.WriteDirect(p, remain)
	verifAssert(err == nil, "C01/writedirect-err")
	verifAssert(!verifWroteCaller(p), "C03/wrote-caller-memory")
	if n == 0 {
		return
	}
	verifRopeInsert(v.pend, v.pendN-remain, p)
	v.pendN += n
	v.pendDir = true
	v.callerMem = append(v.callerMem, p)
}

func (v *verifLB) opMallocAck() {
	// n ranges over the really pending bytes (MallocLen); already-flushed bytes of an appended
	// donor wait in the same queue but are not subject to MallocAck
	n := verifNondetInt("ack.n")
	verifAssume(n >= 0)
	verifAssume(n <= v.pendN-v.windowLen)
	err := v.b.MallocAck(n)
	verifAssert(err == nil, "C01/mallocack-err")
	verifRopeTrunc(v.pend, n)
	v.pendN = n + v.windowLen
}

func (v *verifLB) opFlush() {
	err := v.b.Flush()
	verifAssert(err == nil, "C01/flush-err")
	verifRopeMove(v.segs, v.pend)
	v.flushed += v.pendN
	v.pendN = 0
	v.pendBin, v.pendDir = false, false
	v.window = false
	v.windowLen = 0
}

// Append(donor). Donor variants: 0 = small copied data, flushed; 1 = small data, still pending;
// 2 = large caller-memory node, flushed, plus a pending malloc.
func (v *verifLB) opAppend(kind int) {
	d := verifNewLB(0)
	switch kind {
	case 0:
		d.opWriteBinaryR(false, 1, 4096)
		d.opFlush()
	case 1:
		d.opWriteBinaryR(false, 1, 4096)
	case 2:
		d.opWriteBinaryR(false, 4097, verifMaxLen)
		d.opFlush()
		d.opMallocR(1, 4096)
	}
	err := v.b.Append(d.b)
	verifAssert(err == nil, "C01/append-err")
	// committed bytes of the donor (none consumed) then its pending ones join our pending stream
	verifRopeMoveCommitted(v.pend, d.segs)
	verifRopeMove(v.pend, d.pend)
	v.pendN += d.flushed + d.pendN
	if d.flushed > 0 {
		v.window = true
		v.windowLen += d.flushed
	}
	v.pendBin = true
	v.callerMem = append(v.callerMem, d.callerMem...)
}

// ------------------------------------------------------------------ reader operations

func (v *verifLB) readArg(name string) int {
	n := verifNondetInt(name)
	verifAssume(n >= v.argLo)
	verifAssume(n <= v.argHi)
	return n
}

// rng restricts the next reader argument to [lo,hi] (shape prefixes); reset by step().
func (v *verifLB) rng(lo, hi int) { v.argLo, v.argHi = lo, hi }

func (v *verifLB) opNext() {
	n := v.readArg("next.n")
	p, err := v.b.Next(n)
	if n <= 0 {
		verifAssert(err == nil && len(p) == 0, "C01/next-nonpositive")
		return
	}
	if n > v.readable() {
		verifAssert(err != nil, "C01/next-overread-no-error")
		return
	}
	verifAssert(err == nil, "C01/next-err")
	verifAssert(len(p) == n, "C01/next-len")
	verifAssert(v.matches(p, v.consumed), "C01/next-bytes")
	v.consumed += n
	v.addLease(p, "next", -1)
}

func (v *verifLB) opPeek() {
	n := v.readArg("peek.n")
	p, err := v.b.Peek(n)
	if n <= 0 {
		verifAssert(err == nil && len(p) == 0, "C01/peek-nonpositive")
		return
	}
	if n > v.readable() {
		verifAssert(err != nil, "C01/peek-overread-no-error")
		return
	}
	verifAssert(err == nil, "C01/peek-err")
	verifAssert(len(p) == n, "C01/peek-len")
	verifAssert(v.matches(p, v.consumed), "C01/peek-bytes")
	v.addLease(p, "peek", -1)
}

func (v *verifLB) opSkip() {
	n := v.readArg("skip.n")
	err := v.b.Skip(n)
	if n <= 0 {
		verifAssert(err == nil, "C01/skip-nonpositive")
		return
	}
	if n > v.readable() {
		verifAssert(err != nil, "C01/skip-overread-no-error")
		return
	}
	verifAssert(err == nil, "C01/skip-err")
	v.consumed += n
}

func (v *verifLB) opReadBinary(asString bool) {
	n := v.readArg("rb.n")
	var p []byte
	var err error
	if asString {
		var s string
		s, err = v.b.ReadString(n)
		p = verifStrBytes(s)
	} else {
		p, err = v.b.ReadBinary(n)
	}
	if n <= 0 {
		verifAssert(err == nil && len(p) == 0, "C01/readbinary-nonpositive")
		return
	}
	if n > v.readable() {
		verifAssert(err != nil, "C01/readbinary-overread-no-error")
		return
	}
	verifAssert(err == nil, "C01/readbinary-err")
	verifAssert(len(p) == n, "C01/readbinary-len")
	verifAssert(v.matches(p, v.consumed), "C01/readbinary-bytes")
	verifAssert(!verifBlockIs(p, "pool"), "C03/private-copy-in-pool-memory")
	v.consumed += n
	// a private copy: must stay intact for ever (owner -2 is never released)
	v.addLease(p, "readbinary", -2)
}

func (v *verifLB) opReadByte() {
	c, err := v.b.ReadByte()
	if v.readable() < 1 {
		verifAssert(err != nil, "C01/readbyte-overread-no-error")
		return
	}
	verifAssert(err == nil, "C01/readbyte-err")
	verifAssert(c == v.refByte(v.consumed), "C01/readbyte-value")
	v.consumed++
}

// Until: content scan, so the readable length is bounded (the only place where the byte
// *count* is bounded, DESIGN 5.1).
func (v *verifLB) opUntil(bound int) {
	verifAssume(v.readable() <= bound)
	delim := verifNondetByte("until.delim")
	line, err := v.b.Until(delim)
	// reference: first index of delim in the readable stream
	idx := -1
	for j := bound - 1; j >= 0; j-- {
		hit := j < v.readable() && v.refByte(v.consumed+j) == delim
		idx = verifIteInt(hit, j, idx)
	}
	if idx < 0 {
		verifAssert(err != nil, "C01/until-notfound-no-error")
		return
	}
	verifAssert(err == nil, "C01/until-err")
	verifAssert(len(line) == idx+1, "C01/until-len")
	verifAssert(v.matches(line, v.consumed), "C01/until-bytes")
	v.consumed += idx + 1
	v.addLease(line, "until", -1)
}

func (v *verifLB) opRelease() {
	// Release is the documented end of life of every earlier zero-copy result
	v.endLeases(-1)
	err := v.b.Release()
	verifAssert(err == nil, "C01/release-err")
}

func (v *verifLB) opSlice() { v.opSliceMax(verifMaxLen) }

func (v *verifLB) opSliceMax(max int) {
	n := v.readArg("slice.n")
	verifAssume(n <= max)
	// "Slice will automatically execute a Release": results obtained earlier end here, but
	// only when the call gets that far (n > 0 and enough data)
	if n > 0 && n <= v.readable() {
		v.endLeases(-1)
	}
	r, err := v.b.Slice(n)
	if n <= 0 {
		verifAssert(err == nil && r != nil && r.Len() == 0, "C01/slice-nonpositive")
		return
	}
	if n > v.readable() {
		verifAssert(err != nil, "C01/slice-overread-no-error")
		return
	}
	verifAssert(err == nil, "C01/slice-err")
	lb, ok := r.(*LinkBuffer)
	verifAssert(ok && lb.Len() == n, "C01/slice-len")
	sr := verifSliceReader{r: lb, start: v.consumed, n: n}
	// the Slice reader shares the blocks of its nodes from now until its own Release
	for nd := lb.head; nd != nil; nd = nd.next {
		if len(nd.buf) > 0 {
			id := verifBlockID(nd.buf)
			verifGhostSet("hold", id, verifGhostGet("hold", id)+1)
			sr.holds = append(sr.holds, id)
		}
	}
	v.slices = append(v.slices, sr)
	v.consumed += n
}

// read from the most recent live Slice reader
func (v *verifLB) opSliceNext() {
	k := len(v.slices) - 1
	verifAssume(k >= 0)
	verifAssume(!v.slices[k].released)
	s := &v.slices[k]
	n := v.readArg("slicenext.n")
	p, err := s.r.Next(n)
	left := s.n - s.consumed
	if n <= 0 {
		verifAssert(err == nil && len(p) == 0, "C01/slicenext-nonpositive")
		return
	}
	if n > left {
		verifAssert(err != nil, "C01/slicenext-overread-no-error")
		return
	}
	verifAssert(err == nil && len(p) == n, "C01/slicenext-err")
	verifAssert(v.matches(p, s.start+s.consumed), "C01/slicenext-bytes")
	s.consumed += n
	v.addLease(p, "slice.next", k)
	verifAssert(s.r.Len() == s.n-s.consumed, "C01/slice-len-after")
}

// cut a Slice reader out of the most recent live Slice reader
func (v *verifLB) opSliceOfSlice() {
	k := len(v.slices) - 1
	verifAssume(k >= 0)
	verifAssume(!v.slices[k].released)
	s := &v.slices[k]
	n := v.readArg("slice2.n")
	left := s.n - s.consumed
	if n > 0 && n <= left {
		// Slice releases what its reader handed out before
		v.endLeases(k)
	}
	r, err := s.r.Slice(n)
	if n <= 0 {
		verifAssert(err == nil && r != nil && r.Len() == 0, "C01/slice2-nonpositive")
		return
	}
	if n > left {
		verifAssert(err != nil, "C01/slice2-overread-no-error")
		return
	}
	verifAssert(err == nil, "C01/slice2-err")
	lb, ok := r.(*LinkBuffer)
	verifAssert(ok && lb.Len() == n, "C01/slice2-len")
	sr := verifSliceReader{r: lb, start: s.start + s.consumed, n: n}
	for nd := lb.head; nd != nil; nd = nd.next {
		if len(nd.buf) > 0 {
			id := verifBlockID(nd.buf)
			verifGhostSet("hold", id, verifGhostGet("hold", id)+1)
			sr.holds = append(sr.holds, id)
		}
	}
	s.consumed += n
	v.slices = append(v.slices, sr)
	verifAssert(s.r.Len() == s.n-s.consumed, "C01/slice2-parent-len-after")
}

func (v *verifLB) opSliceRelease() {
	k := len(v.slices) - 1
	verifAssume(k >= 0)
	v.opSliceReleaseIdx(k)
}

func (v *verifLB) opSliceReleaseIdx(k int) {
	verifAssume(!v.slices[k].released)
	// a Slice reader is released once it has been consumed (its Release frees what was read)
	v.endLeases(k)
	for _, id := range v.slices[k].holds {
		verifGhostSet("hold", id, verifGhostGet("hold", id)-1)
	}
	v.slices[k].r.Release()
	v.slices[k].released = true
}

// Read (readCopy): copy up to len(dst) bytes into caller memory.
func (v *verifLB) opReadCopy() {
	m := verifNondetInt("read.len")
	verifAssume(m >= 0)
	verifAssume(m <= verifMaxLen)
	dst := verifNondetBytes("read.dst", m)
	n := v.b.readCopy(dst)
	want := verifIteInt(m < v.readable(), m, v.readable())
	verifAssert(n == want, "C01/read-count")
	verifAssert(v.matches(dst[:n], v.consumed), "C01/read-bytes")
	v.consumed += n
}

// book / bookAck: the poller's pair. Contract (connection.inputs/inputAck): bookSize > 0,
// maxSize > 0, nothing pending from the Writer API, 0 <= n <= len(book result).
func (v *verifLB) opBookAck() {
	verifAssume(v.pendN == 0)
	verifAssume(!v.window)
	bookSize := verifNondetInt("book.size")
	maxSize := verifNondetInt("book.max")
	verifAssume(bookSize >= 1)
	verifAssume(bookSize <= mallocMax)
	verifAssume(maxSize >= 1)
	verifAssume(maxSize <= mallocMax)
	p := v.b.book(bookSize, maxSize)
	verifAssert(len(p) >= 1 && len(p) <= bookSize, "C01/book-len")
	n := verifNondetInt("bookack.n")
	verifAssume(n >= 0)
	verifAssume(n <= len(p))
	verifFill(p[:n])
	length, err := v.b.bookAck(n)
	verifAssert(err == nil, "C01/bookack-err")
	verifRopeAppend(v.segs, p[:n])
	v.flushed += n
	verifAssert(length == v.readable(), "C01/bookack-length")
}

// GetBytes: the vectors taken for sending describe a prefix of the readable stream, in order.
func (v *verifLB) opGetBytes() {
	k := verifPick("getbytes.k", 1, 3)
	vs := make([][]byte, k)
	rs := v.b.GetBytes(vs)
	pos := v.consumed
	total := 0
	for i := 0; i < len(rs); i++ {
		verifAssert(v.matches(rs[i], pos), "C01/getbytes-bytes")
		pos += len(rs[i])
		total += len(rs[i])
		v.addLease(rs[i], "getbytes", -1)
	}
	verifAssert(total <= v.readable(), "C01/getbytes-total")
	verifAssert(len(rs) < k || total <= v.readable(), "C01/getbytes-prefix")
	verifAssert(len(rs) == k || total == v.readable(), "C01/getbytes-all-when-room")
}

// ------------------------------------------------------------------ dispatcher

const (
	verifOpMalloc = iota
	verifOpWriteBinary
	verifOpWriteString
	verifOpWriteByte
	verifOpWriteDirect
	verifOpMallocAck
	verifOpFlush
	verifOpAppend
	verifOpAppendPending
	verifOpAppendBig
	verifOpNext
	verifOpPeek
	verifOpSkip
	verifOpReadBinary
	verifOpReadString
	verifOpReadByte
	verifOpUntil
	verifOpRelease
	verifOpSlice
	verifOpSliceNext
	verifOpSliceRelease
	verifOpReadCopy
	verifOpBookAck
	verifOpGetBytes
	verifOpSliceOfSlice
	verifOpCount
)

func verifOpIsRead(op int) bool { return op >= verifOpNext && op != verifOpBookAck }

func (v *verifLB) step(op int) {
	verifLog("op", op)
	// reads are forbidden between Append and the next Flush (WriteBuffer's doc comment)
	if v.window && (verifOpIsRead(op) || op == verifOpBookAck) {
		verifAssume(false)
	}
	v.argLo, v.argHi = -1, verifMaxLen
	switch op {
	case verifOpMalloc:
		v.opMalloc()
	case verifOpWriteBinary:
		v.opWriteBinary(false)
	case verifOpWriteString:
		v.opWriteBinary(true)
	case verifOpWriteByte:
		v.opWriteByte()
	case verifOpWriteDirect:
		v.opWriteDirect()
	case verifOpMallocAck:
		v.opMallocAck()
	case verifOpFlush:
		v.opFlush()
	case verifOpAppend:
		v.opAppend(0)
	case verifOpAppendPending:
		v.opAppend(1)
	case verifOpAppendBig:
		v.opAppend(2)
	case verifOpNext:
		v.opNext()
	case verifOpPeek:
		v.opPeek()
	case verifOpSkip:
		v.opSkip()
	case verifOpReadBinary:
		v.opReadBinary(false)
	case verifOpReadString:
		v.opReadBinary(true)
	case verifOpReadByte:
		v.opReadByte()
	case verifOpUntil:
		v.opUntil(4)
	case verifOpRelease:
		v.opRelease()
	case verifOpSlice:
		v.opSlice()
	case verifOpSliceNext:
		v.opSliceNext()
	case verifOpSliceRelease:
		v.opSliceRelease()
	case verifOpReadCopy:
		v.opReadCopy()
	case verifOpBookAck:
		v.opBookAck()
	case verifOpGetBytes:
		v.opGetBytes()
	case verifOpSliceOfSlice:
		v.opSliceOfSlice()
	}
	v.ops++
	v.checkLens("C01/after-op")
	v.checkLeases()
}

// drain: whatever happened, flushing and reading everything back yields exactly the
// reference stream (nothing lost, duplicated, reordered; discarded bytes never appear).
func (v *verifLB) drain() {
	v.opFlush()
	v.checkLens("C01/drain")
	all := v.readable()
	verifAssert(v.b.Len() == all, "C01/drain-len")
	if all > 0 {
		// a Peek first: a stale peek cache would show here
		pk, perr := v.b.Peek(all)
		verifAssert(perr == nil && len(pk) == all, "C01/drain-peek")
		verifAssert(v.matches(pk, v.consumed), "C01/drain-peek-bytes")
		v.addLease(pk, "drain.peek", -1)
		p, err := v.b.Next(all)
		verifAssert(err == nil && len(p) == all, "C01/drain-next")
		verifAssert(v.matches(p, v.consumed), "C01/drain-bytes")
		v.addLease(p, "drain.next", -1)
		v.consumed += all
	}
	_, err := v.b.Next(1)
	verifAssert(err != nil, "C01/drain-more-than-written")
	// every Slice reader that was not released still delivers its bytes
	for k := range v.slices {
		s := &v.slices[k]
		if s.released {
			continue
		}
		left := s.n - s.consumed
		verifAssert(s.r.Len() == left, "C01/drain-slice-len")
		if left > 0 {
			p, err := s.r.Next(left)
			verifAssert(err == nil && len(p) == left, "C01/drain-slice-next")
			verifAssert(v.matches(p, s.start+s.consumed), "C01/drain-slice-bytes")
			s.consumed += left
			v.addLease(p, "slice.next", k)
		}
	}
	v.checkLeases()
	verifScribblePool()
	v.checkLeases()
	// the parent's Release ends the parent's results only: what live Slice readers handed out
	// stays intact
	v.opRelease()
	v.checkLeases()
	verifScribblePool()
	v.checkLeases()
	// caller-owned memory was never written by the buffer code
	for i := range v.callerMem {
		verifAssert(!verifWroteCaller(v.callerMem[i]), "C03/wrote-caller-memory")
	}
}
