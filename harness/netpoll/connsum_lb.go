//go:build verif

package netpoll

import "sync/atomic"

// LinkBuffer summaries for the partial-order connection harnesses: the buffer is reduced to its
// C01 contract on the `length` counter (Len = atomic load; Next/Skip(n): length -= n;
// bookAck(n): length += n; Flush: pending -> length). The internals are decided by C01-C03/C04.

// ---------------------------------------------------------------- LinkBuffer summaries

//verif:stub (*github.com/cloudwego/netpoll.UnsafeLinkBuffer).book verifSumBook
//verif:stub (*github.com/cloudwego/netpoll.UnsafeLinkBuffer).bookAck verifSumBookAck
//verif:stub (*github.com/cloudwego/netpoll.UnsafeLinkBuffer).Next verifSumNext
//verif:stub (*github.com/cloudwego/netpoll.UnsafeLinkBuffer).Peek verifSumPeek
//verif:stub (*github.com/cloudwego/netpoll.UnsafeLinkBuffer).Skip verifSumSkip
//verif:stub (*github.com/cloudwego/netpoll.UnsafeLinkBuffer).Release verifSumRelease
//verif:stub (*github.com/cloudwego/netpoll.UnsafeLinkBuffer).Close verifSumClose
//verif:stub (*github.com/cloudwego/netpoll.UnsafeLinkBuffer).calcMaxSize verifSumCalcMax
//verif:stub (*github.com/cloudwego/netpoll.UnsafeLinkBuffer).resetTail verifSumResetTail
//verif:stub (*github.com/cloudwego/netpoll.UnsafeLinkBuffer).Malloc verifSumMalloc
//verif:stub (*github.com/cloudwego/netpoll.UnsafeLinkBuffer).Flush verifSumFlush
//verif:stub (*github.com/cloudwego/netpoll.UnsafeLinkBuffer).GetBytes verifSumGetBytes
//verif:stub (*github.com/cloudwego/netpoll.UnsafeLinkBuffer).readCopy verifSumReadCopy

var verifDummy = make([]byte, 1)

func verifSumBook(b *UnsafeLinkBuffer, bookSize, maxSize int) []byte { return verifDummy }

func verifSumBookAck(b *UnsafeLinkBuffer, n int) (int, error) {
	return int(atomic.AddInt64(&b.length, int64(n))), nil
}

var verifErrNotEnough = Exception(ErrUnsupported, "not enough")

func verifSumNext(b *UnsafeLinkBuffer, n int) ([]byte, error) {
	if n <= 0 {
		return nil, nil
	}
	if b.Len() < n {
		return nil, verifErrNotEnough
	}
	atomic.AddInt64(&b.length, int64(-n))
	return verifDummy, nil
}

func verifSumPeek(b *UnsafeLinkBuffer, n int) ([]byte, error) {
	if n <= 0 {
		return nil, nil
	}
	if b.Len() < n {
		return nil, verifErrNotEnough
	}
	return verifDummy, nil
}

func verifSumSkip(b *UnsafeLinkBuffer, n int) error {
	if n <= 0 {
		return nil
	}
	if b.Len() < n {
		return verifErrNotEnough
	}
	atomic.AddInt64(&b.length, int64(-n))
	return nil
}

func verifSumReadCopy(b *UnsafeLinkBuffer, p []byte) int {
	l := len(p)
	if has := b.Len(); has < l {
		l = has
	}
	atomic.AddInt64(&b.length, int64(-l))
	return l
}

func verifSumRelease(b *UnsafeLinkBuffer) error { return nil }

func verifSumClose(b *UnsafeLinkBuffer) error {
	atomic.StoreInt64(&b.length, 0)
	return nil
}

func verifSumCalcMax(b *UnsafeLinkBuffer) int        { return 0 }
func verifSumResetTail(b *UnsafeLinkBuffer, max int) {}

func verifSumMalloc(b *UnsafeLinkBuffer, n int) ([]byte, error) {
	if n <= 0 {
		return nil, nil
	}
	b.mallocSize += n
	return verifDummy, nil
}

func verifSumFlush(b *UnsafeLinkBuffer) error {
	n := b.mallocSize
	b.mallocSize = 0
	atomic.AddInt64(&b.length, int64(n))
	return nil
}

func verifSumGetBytes(b *UnsafeLinkBuffer, p [][]byte) [][]byte {
	p[0] = verifDummy
	return p[:1]
}


//verif:stub (*github.com/cloudwego/netpoll.defaultPoll).Free verifPollFree

// Slot recycling (operatorCache.freeable/free) is the subject of C10; in the connection
// harnesses Free is a monitor: the slot is released at most once.
func verifPollFree(p *defaultPoll, op *FDOperator) {
	n := atomic.AddInt32(&verifK.opFree, 1)
	verifAssert(n == 1, "C05/poller-slot-released-twice")
	// the slot token protocol is kept (the real unused() waits until the poller has finished
	// its do()/done() section and makes every later do() fail); only reset() and the free
	// list are left to C10
	op.unused()
}

