//go:build verif

package netpoll

import "unsafe"

func uintptrOf(p *byte) uintptr { return uintptr(unsafe.Pointer(p)) }
