//go:build verif

package netpoll

import "unsafe"

func uintptrOf(p *byte) uintptr { return uintptr(unsafe.Pointer(p)) }

func verifUnsafe(p *[8]byte) unsafe.Pointer { return unsafe.Pointer(p) }
