//go:build verif

package netpoll

import (
	"context"
	"sync/atomic"

	"github.com/cloudwego/netpoll/internal/runner"
)

// Common set-up of the connection harnesses (DESIGN 5.6).
//
// * The connection is built by running the real connection.init (initNetFD, initFDOperator,
//   initFinalizer, onPrepare, register) as a sequential prologue.
// * pollmanager hands out a real *defaultPoll whose kernel side is a ghost: EpollCtl and
//   syscall.Close are stubs that count into the monitor.
// * In the partial-order harnesses the LinkBuffer methods used by the connection are
//   summarised by their C01 contract on the `length` counter (the internals are decided by
//   C01–C03 and C04).
// * runner.RunTask is the model's spawn.

//verif:stub github.com/cloudwego/netpoll.openPoll verifOpenPoll
//verif:stub github.com/cloudwego/netpoll.EpollCtl verifEpollCtl
//verif:stub syscall.Close verifSysClose
//verif:stub syscall.SetNonblock verifSysSetNonblock
//verif:stub github.com/cloudwego/netpoll.setTCPNoDelay verifSetTCPNoDelay
//verif:stub (*github.com/cloudwego/netpoll.defaultPoll).Wait verifPollWait
//verif:stub (*github.com/cloudwego/netpoll.defaultPoll).Free verifPollFree

type verifKMon struct {
	ctlAdd, ctlDel, ctlMod int32
	interest               int32 // 0 none, 1 read, 2 read+write
	fdClose                int32
	cb                     [2]int32
	cbRuns                 int32
	inHandler              int32
	handlerRuns            int32
	inConnect              int32
	connectDone            int32
	disconnects            int32
	prepared               int32
	finalizerRuns          int32
	ctlErr                 int32
	opFree                 int32
}

var verifK *verifKMon

func verifOpenPoll() (Poll, error) {
	p := &defaultPoll{}
	p.fd = 3
	p.wop = &FDOperator{FD: 4}
	p.opcache = newOperatorCache()
	return p, nil
}

func verifPollWait(p *defaultPoll) error { return nil }

// Slot recycling (operatorCache.freeable/free) is the subject of C10; in the connection
// harnesses Free is a monitor: the slot is released at most once.
func verifPollFree(p *defaultPoll, op *FDOperator) {
	n := atomic.AddInt32(&verifK.opFree, 1)
	verifAssert(n == 1, "C05/poller-slot-released-twice")
}

func verifEpollCtl(epfd, op, fd int, event *epollevent) error {
	switch op {
	case 1: // EPOLL_CTL_ADD
		atomic.AddInt32(&verifK.ctlAdd, 1)
		atomic.StoreInt32(&verifK.interest, 1)
	case 2: // EPOLL_CTL_DEL
		n := atomic.AddInt32(&verifK.ctlDel, 1)
		verifAssert(n == 1, "C05/poller-registration-released-twice")
		atomic.StoreInt32(&verifK.interest, 0)
	case 3: // EPOLL_CTL_MOD
		atomic.AddInt32(&verifK.ctlMod, 1)
		if event.events&0x4 != 0 {
			atomic.StoreInt32(&verifK.interest, 2)
		} else {
			atomic.StoreInt32(&verifK.interest, 1)
		}
	}
	return nil
}

func verifSysClose(fd int) error {
	n := atomic.AddInt32(&verifK.fdClose, 1)
	verifAssert(n == 1, "C05/descriptor-closed-twice")
	return nil
}

func verifSysSetNonblock(fd int, nb bool) error { return nil }
func verifSetTCPNoDelay(fd int, b bool) error   { return nil }

func verifRunTaskSpawn(ctx context.Context, f func()) { verifSpawn(f) }

// ---------------------------------------------------------------- LinkBuffer summaries

//verif:stub (*github.com/cloudwego/netpoll.UnsafeLinkBuffer).book verifSumBook
//verif:stub (*github.com/cloudwego/netpoll.UnsafeLinkBuffer).bookAck verifSumBookAck
//verif:stub (*github.com/cloudwego/netpoll.UnsafeLinkBuffer).Next verifSumNext
//verif:stub (*github.com/cloudwego/netpoll.UnsafeLinkBuffer).Peek verifSumPeek
//verif:stub (*github.com/cloudwego/netpoll.UnsafeLinkBuffer).Skip verifSumSkip
//verif:stub (*github.com/cloudwego/netpoll.UnsafeLinkBuffer).Release verifSumRelease
//verif:stub (*github.com/cloudwego/netpoll.UnsafeLinkBuffer).Close verifSumClose
//verif:stub (*github.com/cloudwego/netpoll.UnsafeLinkBuffer).calcMaxSize verifSumCalcMax
//verif:stub (*github.com/cloudwego/netpoll.UnsafeLinkBuffer).resetTail verifSumResetTail
//verif:stub (*github.com/cloudwego/netpoll.UnsafeLinkBuffer).Malloc verifSumMalloc
//verif:stub (*github.com/cloudwego/netpoll.UnsafeLinkBuffer).Flush verifSumFlush
//verif:stub (*github.com/cloudwego/netpoll.UnsafeLinkBuffer).GetBytes verifSumGetBytes
//verif:stub (*github.com/cloudwego/netpoll.UnsafeLinkBuffer).readCopy verifSumReadCopy

var verifDummy = make([]byte, 1)

func verifSumBook(b *UnsafeLinkBuffer, bookSize, maxSize int) []byte { return verifDummy }

func verifSumBookAck(b *UnsafeLinkBuffer, n int) (int, error) {
	return int(atomic.AddInt64(&b.length, int64(n))), nil
}

var verifErrNotEnough = Exception(ErrUnsupported, "not enough")

func verifSumNext(b *UnsafeLinkBuffer, n int) ([]byte, error) {
	if n <= 0 {
		return nil, nil
	}
	if b.Len() < n {
		return nil, verifErrNotEnough
	}
	atomic.AddInt64(&b.length, int64(-n))
	return verifDummy, nil
}

func verifSumPeek(b *UnsafeLinkBuffer, n int) ([]byte, error) {
	if n <= 0 {
		return nil, nil
	}
	if b.Len() < n {
		return nil, verifErrNotEnough
	}
	return verifDummy, nil
}

func verifSumSkip(b *UnsafeLinkBuffer, n int) error {
	if n <= 0 {
		return nil
	}
	if b.Len() < n {
		return verifErrNotEnough
	}
	atomic.AddInt64(&b.length, int64(-n))
	return nil
}

func verifSumReadCopy(b *UnsafeLinkBuffer, p []byte) int {
	l := len(p)
	if has := b.Len(); has < l {
		l = has
	}
	atomic.AddInt64(&b.length, int64(-l))
	return l
}

func verifSumRelease(b *UnsafeLinkBuffer) error { return nil }

func verifSumClose(b *UnsafeLinkBuffer) error {
	atomic.StoreInt64(&b.length, 0)
	return nil
}

func verifSumCalcMax(b *UnsafeLinkBuffer) int        { return 0 }
func verifSumResetTail(b *UnsafeLinkBuffer, max int) {}

func verifSumMalloc(b *UnsafeLinkBuffer, n int) ([]byte, error) {
	if n <= 0 {
		return nil, nil
	}
	b.mallocSize += n
	return verifDummy, nil
}

func verifSumFlush(b *UnsafeLinkBuffer) error {
	n := b.mallocSize
	b.mallocSize = 0
	atomic.AddInt64(&b.length, int64(n))
	return nil
}

func verifSumGetBytes(b *UnsafeLinkBuffer, p [][]byte) [][]byte {
	p[0] = verifDummy
	return p[:1]
}

// ---------------------------------------------------------------- building a connection

type verifConnCfg struct {
	onRequest    bool
	onConnect    bool
	onDisconnect bool
	closeCBs     int // user close callbacks (0..2)
	handler      func(ctx context.Context, c Connection) error
}

func verifCloseCB(i int) CloseCallback {
	return func(c Connection) error {
		n := atomic.AddInt32(&verifK.cb[i], 1)
		verifAssert(n == 1, "C05/close-callback-ran-twice")
		verifAssert(atomic.LoadInt32(&verifK.inHandler) == 0, "C05/close-callback-while-handler-runs")
		if i == 0 {
			// registered first, so it runs last: the later one has run already
			verifAssert(atomic.LoadInt32(&verifK.cb[1]) == 1 || atomic.LoadInt32(&verifK.cb[1]) == -1, "C05/close-callbacks-out-of-order")
		}
		atomic.AddInt32(&verifK.cbRuns, 1)
		return nil
	}
}

// verifNewConn runs the real connection.init over a ghost descriptor.
func verifNewConn(cfg verifConnCfg) *connection {
	verifK = &verifKMon{}
	runner.RunTask = verifRunTaskSpawn
	pollmanager = newManager(1)
	nfd := newNetFD(7, 2, 1, "tcp")
	c := &connection{}
	opts := &options{}
	if cfg.onRequest {
		opts.onRequest = cfg.handler
	}
	err := c.init(nfd, opts)
	verifAssume(err == nil)
	for i := 0; i < cfg.closeCBs; i++ {
		c.AddCloseCallback(verifCloseCB(i))
	}
	if cfg.closeCBs < 2 {
		verifK.cb[1] = -1
	}
	return c
}
