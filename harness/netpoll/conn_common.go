//go:build verif

package netpoll

import (
	"context"
	"sync/atomic"

	"github.com/cloudwego/netpoll/internal/runner"
)

// Common set-up of the connection harnesses (DESIGN 5.6).
//
// * The connection is built by running the real connection.init (initNetFD, initFDOperator,
//   initFinalizer, onPrepare, register) as a sequential prologue.
// * pollmanager hands out a real *defaultPoll whose kernel side is a ghost: EpollCtl and
//   syscall.Close are stubs that count into the monitor.
// * In the partial-order harnesses the LinkBuffer methods used by the connection are
//   summarised by their C01 contract on the `length` counter (the internals are decided by
//   C01–C03 and C04).
// * runner.RunTask is the model's spawn.

//verif:stub github.com/cloudwego/netpoll.openPoll verifOpenPoll
//verif:stub github.com/cloudwego/netpoll.EpollCtl verifEpollCtl
//verif:stub syscall.Close verifSysClose
//verif:stub syscall.SetNonblock verifSysSetNonblock
//verif:stub github.com/cloudwego/netpoll.setTCPNoDelay verifSetTCPNoDelay
//verif:stub (*github.com/cloudwego/netpoll.defaultPoll).Wait verifPollWait

type verifKMon struct {
	handlerClosed          int32 // the request handler has called Close and Close has returned
	ctlAdd, ctlDel, ctlMod int32
	interest               int32 // 0 none, 1 read, 2 read+write
	fdClose                int32
	cb                     [2]int32
	cbRuns                 int32
	inHandler              int32
	handlerRuns            int32
	inConnect              int32
	connectDone            int32
	disconnects            int32
	prepared               int32
	finalizerRuns          int32
	ctlErr                 int32
	wantDisc               int32
	delivered              int32
	consumed               int32
	deliveredAtFire        int32
	readerDone             int32
	acked                  int32
	opFree                 int32
}

var verifK *verifKMon

func verifOpenPoll() (Poll, error) {
	p := &defaultPoll{}
	p.fd = 3
	p.wop = &FDOperator{FD: 4}
	p.opcache = newOperatorCache()
	return p, nil
}

func verifPollWait(p *defaultPoll) error { return nil }

func verifEpollCtl(epfd, op, fd int, event *epollevent) error {
	switch op {
	case 1: // EPOLL_CTL_ADD
		atomic.AddInt32(&verifK.ctlAdd, 1)
		atomic.StoreInt32(&verifK.interest, 1)
	case 2: // EPOLL_CTL_DEL
		n := atomic.AddInt32(&verifK.ctlDel, 1)
		verifAssert(n == 1, "C05/poller-registration-released-twice")
		atomic.StoreInt32(&verifK.interest, 0)
	case 3: // EPOLL_CTL_MOD
		atomic.AddInt32(&verifK.ctlMod, 1)
		if event.events&0x4 != 0 {
			atomic.StoreInt32(&verifK.interest, 2)
		} else {
			atomic.StoreInt32(&verifK.interest, 1)
		}
	}
	return nil
}

// injection point used by sequential harnesses: the kernel has just released the number
var verifCloseHook func(fd int)

func verifSysClose(fd int) error {
	n := atomic.AddInt32(&verifK.fdClose, 1)
	verifAssert(n == 1, "C05/descriptor-closed-twice")
	if h := verifCloseHook; h != nil {
		h(fd)
	}
	return nil
}

func verifSysSetNonblock(fd int, nb bool) error { return nil }
func verifSetTCPNoDelay(fd int, b bool) error   { return nil }

func verifRunTaskSpawn(ctx context.Context, f func()) { verifSpawn(f) }

// ---------------------------------------------------------------- building a connection

type verifConnCfg struct {
	onRequest    bool
	onConnect    bool
	onDisconnect bool
	closeCBs     int // user close callbacks (0..2)
	handler      func(ctx context.Context, c Connection) error
}

func verifCloseCB(i int) CloseCallback {
	return func(c Connection) error {
		n := atomic.AddInt32(&verifK.cb[i], 1)
		verifAssert(n == 1, "C05/close-callback-ran-twice")
		verifAssert(atomic.LoadInt32(&verifK.inHandler) == 0, "C05/close-callback-while-handler-runs")
		if atomic.LoadInt32(&verifK.prepared) == 1 {
			// everything the peer sent was delivered before its hang-up: it must have been
			// offered to the (always-consuming) handler before the close callbacks run
			verifAssert(c.Reader().Len() == 0, "C06/close-callbacks-before-buffered-input-was-offered")
		}
		verifAssert(atomic.LoadInt32(&verifK.inConnect) == 0, "C09/close-callback-while-OnConnect-runs")
		if i == 0 {
			// registered first, so it runs last: the later one has run already
			verifAssert(atomic.LoadInt32(&verifK.cb[1]) == 1 || atomic.LoadInt32(&verifK.cb[1]) == -1, "C05/close-callbacks-out-of-order")
		}
		atomic.AddInt32(&verifK.cbRuns, 1)
		return nil
	}
}

type verifAddr struct{}

func (verifAddr) Network() string { return "tcp" }
func (verifAddr) String() string  { return "10.0.0.1:80" }

func verifNetFD() *netFD {
	nfd := newNetFD(7, 2, 1, "tcp")
	nfd.localAddr = verifAddr{}
	nfd.remoteAddr = verifAddr{}
	return nfd
}

// verifNewConn runs the real connection.init over a ghost descriptor.
func verifNewConn(cfg verifConnCfg) *connection {
	verifK = &verifKMon{}
	runner.RunTask = verifRunTaskSpawn
	pollmanager = newManager(1)
	nfd := verifNetFD()
	c := &connection{}
	opts := &options{}
	if cfg.onRequest {
		opts.onRequest = cfg.handler
	}
	err := c.init(nfd, opts)
	verifAssume(err == nil)
	for i := 0; i < cfg.closeCBs; i++ {
		c.AddCloseCallback(verifCloseCB(i))
	}
	if cfg.closeCBs < 2 {
		verifK.cb[1] = -1
	}
	return c
}


// OnConnect / OnDisconnect callbacks with order monitors (C09)
func verifOnConnectCB(ctx context.Context, c Connection) context.Context {
	atomic.AddInt32(&verifK.inConnect, 1)
	verifAssert(atomic.LoadInt32(&verifK.handlerRuns) == 0, "C09/OnRequest-before-OnConnect-finished")
	verifAssert(atomic.LoadInt32(&verifK.disconnects) == 0, "C09/OnDisconnect-before-OnConnect-finished")
	atomic.AddInt32(&verifK.inConnect, -1)
	atomic.StoreInt32(&verifK.connectDone, 1)
	return ctx
}

func verifOnDisconnectCB(ctx context.Context, c Connection) {
	n := atomic.AddInt32(&verifK.disconnects, 1)
	verifAssert(n == 1, "C09/OnDisconnect-ran-twice")
	verifAssert(atomic.LoadInt32(&verifK.inConnect) == 0, "C09/OnDisconnect-while-OnConnect-runs")
	verifAssert(atomic.LoadInt32(&verifK.cbRuns) == 0, "C09/OnDisconnect-after-close-callbacks")
}

// connection with OnConnect (+OnDisconnect) and OnRequest, as server.onAccept builds it
func verifNewConnOnConnect(h func(ctx context.Context, c Connection) error) *connection {
	verifK = &verifKMon{}
	runner.RunTask = verifRunTaskSpawn
	pollmanager = newManager(1)
	nfd := verifNetFD()
	c := &connection{}
	opts := &options{}
	opts.onRequest = h
	opts.onConnect = verifOnConnectCB
	opts.onDisconnect = verifOnDisconnectCB
	err := c.init(nfd, opts)
	verifAssume(err == nil)
	c.AddCloseCallback(verifCloseCB(0))
	verifK.cb[1] = -1
	return c
}


func runner_RunTask_set() { runner.RunTask = verifRunTaskSpawn }
