//go:build verif

package netpoll

import (
	"context"
	"errors"
	"sync/atomic"
	"syscall"
	"time"
)

// C08 — Flush completes exactly when the kernel has taken the data (DESIGN 5.10).
//
// Kernel socket ghost: `space` free bytes; sendmsg takes between 1 and min(space, pending)
// bytes, or answers EAGAIN when there is no space; a peer thread adds space. The poller
// dispatches a write-ready event only while the descriptor is registered read+write and the
// socket has space (level-triggered epoll). The output buffer is summarised on its length, so
// order/duplication is abstracted to byte counts: accepted == submitted.

//verif:stub github.com/cloudwego/netpoll.sendmsg verifC08Sendmsg

type verifSock struct {
	space     int64
	accepted  int64
	submitted int64
	inSend    int32
	sends     int32
	flushDone int32
	flushErr  int32
	hardErr   int32
	otherFlusher bool
}

var verifS *verifSock
var verifC08Conn *connection

func verifC08Sendmsg(fd int, bs [][]byte, ivs []syscall.Iovec, zerocopy bool) (int, error) {
	s := verifS
	k := atomic.AddInt32(&s.inSend, 1)
	verifAssert(k == 1, "C08/two-senders-on-the-output-buffer-at-once")
	atomic.AddInt32(&s.sends, 1)
	total := int64(verifC08Conn.outputBuffer.Len())
	sp := atomic.LoadInt64(&s.space)
	var n int64
	var err error
	if sp == 0 {
		n, err = -1, syscall.EAGAIN
	} else {
		n = verifNondetInt64("send.n")
		verifAssume(n >= 1)
		verifAssume(n <= total)
		verifAssume(n <= sp)
		atomic.AddInt64(&s.space, -n)
		atomic.AddInt64(&s.accepted, n)
	}
	atomic.AddInt32(&s.inSend, -1)
	return int(n), err
}

// one Flush of k freshly malloc'ed bytes, checked against the oracle
func verifFlushCall(c *connection, k int, vt *verifTimer, label string) bool {
	f0 := int32(0)
	if vt != nil {
		f0 = atomic.LoadInt32(&vt.fires)
	}
	c.Malloc(k)
	atomic.AddInt64(&verifS.submitted, int64(k))
	err := c.Flush()
	if err == nil {
		verifAssert(atomic.LoadInt64(&verifS.accepted) == atomic.LoadInt64(&verifS.submitted), label+"/nil-before-kernel-took-everything")
		return true
	}
	atomic.AddInt32(&verifS.flushErr, 1)
	closedBy := atomic.LoadInt32(&c.keychain[closing])
	if errors.Is(err, ErrWriteTimeout) {
		verifAssert(vt != nil && atomic.LoadInt32(&vt.fires) > f0, label+"/timeout-although-its-timer-did-not-expire")
	} else if errors.Is(err, ErrConcurrentAccess) {
		// legitimate when another Flush holds the lock, or when a concurrent Close has already
		// stopped the flushing lock (IsActive was still true a moment earlier)
		verifAssert(verifS.otherFlusher || closedBy != 0, label+"/ErrConcurrentAccess-without-concurrent-flush")
	} else {
		verifAssert(errors.Is(err, ErrConnClosed), label+"/unexpected-error")
		verifAssert(closedBy != 0, label+"/ErrConnClosed-without-close")
	}
	return false
}

// the poller's write-ready dispatch (the write branch of defaultPoll.handler)
func verifWriteReady(op *FDOperator, vs [][]byte, ivs []syscall.Iovec) {
	if atomic.LoadInt32(&verifK.interest) != 2 || atomic.LoadInt64(&verifS.space) == 0 {
		return
	}
	if op.do() {
		bs, _ := op.Outputs(vs)
		if len(bs) > 0 {
			n, err := iosend(op.FD, bs, ivs, false)
			op.OutputAck(n)
			if err != nil {
				atomic.StoreInt32(&verifS.hardErr, 1)
			}
		}
		op.done()
	}
}

// Scenarios:
//  0: one Flush of k bytes; socket space symbolic (possibly 0); peer drains once; poller may
//     dispatch two write-ready events
//  1: scenario 0 plus a second goroutine calling Flush concurrently (must get
//     ErrConcurrentAccess and touch neither buffer nor kernel)
//  2: write timeout set: two successive Flush calls || poller || peer || timer expiry
//  3: scenario 0 plus a local Close at any moment
//  4: scenario 0 plus a peer hang-up reported by the poller at any moment (connection without
//     callbacks: only the hang-up can wake the flusher)
//  5: scenario 1 with two further goroutines calling Flush concurrently
//  6: scenario 4 with an OnDisconnect callback that waits for the application's flusher to
//     return: the flusher's wake-up must not depend on the callback having returned
//
//verif:po
//verif:bounds 1-2 Flush calls of k in [1, 1<<20] bytes (scenarios 2, 4, 5, 6: k in [1,4], space <= 4, drain <= 8), socket space symbolic, <= 2 write-ready dispatches, 1 peer drain, timer may expire twice; output buffer summarised on its length; state revisits <= 3
//verif:param 0 6
//verif:loop 40
//verif:poloop 3
//verif:potimeout 400
//verif:also C19
func verifHarness_C08_flush(sc int) {
	c := verifNewConn(verifConnCfg{closeCBs: 1})
	verifC08Conn = c
	verifS = &verifSock{otherFlusher: sc == 1 || sc == 5}
	// scenario 2 (two Flush calls, timer) is only decidable in time with small byte counts
	lim := 1 << 20
	if sc == 2 || sc >= 4 {
		lim = 4
	}
	sp := verifNondetInt64("space0")
	verifAssume(sp >= 0)
	verifAssume(sp <= int64(lim))
	verifS.space = sp
	op := c.operator
	vs := make([][]byte, 1)
	ivs := make([]syscall.Iovec, 1)
	var vt *verifTimer
	if sc == 2 {
		c.writeTimer = verifMakeTimer()
		vt = verifTimerOf(c.writeTimer)
		c.writeTimeout = time.Second
	}
	flusherGone := make(chan struct{}, 1)
	if sc == 6 {
		c.onDisconnectCallback.Store(OnDisconnect(func(ctx context.Context, conn Connection) {
			<-flusherGone
		}))
	}
	k1 := verifNondetInt("k1")
	verifAssume(k1 >= 1)
	verifAssume(k1 <= lim)
	k2 := verifNondetInt("k2")
	verifAssume(k2 >= 1)
	verifAssume(k2 <= lim)
	verifThread("flusher", func() {
		ok := verifFlushCall(c, k1, vt, "C08/flush1")
		// (after a reported write error the stream guarantee ends: a second Flush is only
		// issued when the first one succeeded)
		if sc == 2 && ok {
			verifFlushCall(c, k2, vt, "C08/flush2")
		}
		atomic.StoreInt32(&verifS.flushDone, 1)
		if sc == 6 {
			flusherGone <- struct{}{}
		}
		verifReach("flusher-done")
	})
	verifThread("poller", func() {
		verifWriteReady(op, vs, ivs)
		verifWriteReady(op, vs, ivs)
	})
	verifThread("peer", func() {
		d := verifNondetInt64("drain")
		verifAssume(d >= 1)
		verifAssume(d <= 2*int64(lim))
		atomic.AddInt64(&verifS.space, d)
	})
	second := func() {
		// the Writer has one user at a time: another goroutine only calls Flush while the
		// first one is inside Flush (it holds the flushing lock), never between the first
		// one's Malloc and Flush
		if atomic.LoadInt32(&c.keychain[flushing]) != 1 {
			return
		}
		err := c.Flush()
		verifAssert(err == nil || errors.Is(err, ErrConcurrentAccess) || errors.Is(err, ErrConnClosed), "C08/second-flush-unexpected-error")
	}
	switch sc {
	case 1:
		verifThread("flusher2", second)
	case 5:
		verifThread("flusher2", second)
		verifThread("flusher3", second)
	case 4, 6:
		verifThread("hup", func() {
			p := op.poll.(*defaultPoll)
			if op.do() {
				p.appendHup(op)
			}
			p.onhups()
		})
	case 2:
		verifThread("timer", func() {
			verifTimerFire(vt)
			verifTimerFire(vt)
		})
	case 3:
		verifThread("closer", func() { c.Close() })
	}
	verifFinal("quiescent", func() {
		if atomic.LoadInt32(&verifS.flushDone) == 0 {
			closedBy := atomic.LoadInt32(&c.keychain[closing])
			verifAssert(closedBy == 0, "C08/flusher-blocked-although-connection-closed")
			// still waiting is only legitimate while the kernel has not taken everything and has
			// no room left
			left := atomic.LoadInt64(&verifS.submitted) - atomic.LoadInt64(&verifS.accepted)
			verifAssert(left > 0, "C08/flusher-blocked-although-kernel-took-everything")
			verifAssert(atomic.LoadInt64(&verifS.space) == 0 || atomic.LoadInt32(&verifK.interest) == 2, "C08/flusher-blocked-with-space-and-no-write-interest")
		}
	})
}

// Sequential part: how the write timer is armed. A Flush that has to wait (socket full) on a
// quiet connection, with a write deadline (possibly already expired) or a write timeout, with
// or without a timer left from an earlier Flush. The clock is an arbitrary non-decreasing
// instant. An expired deadline answers at once with ErrWriteTimeout; otherwise the timer is
// armed with exactly deadline - now (or the timeout) and the call waits (a legitimate end).
//
//verif:bounds k in [1,8] bytes, socket full; deadline/timeout/clock symbolic; timer object fresh or reused
//verif:loop 40
//verif:replay interp
//verif:blockok
func verifHarness_C08_deadline() {
	c := verifNewConn(verifConnCfg{closeCBs: 1})
	verifC08Conn = c
	verifS = &verifSock{}
	verifTimerChk, verifTimerDl, verifTimerTo = "C08", 0, 0
	if verifNondetBool("existing.timer") {
		c.writeTimer = verifMakeTimer()
	}
	if verifNondetBool("use.deadline") {
		dl := verifNondetInt64("deadline")
		verifAssume(dl >= 1)
		verifAssume(dl <= 1<<41)
		c.writeDeadline = dl
		verifTimerDl = dl
		if verifNondetBool("timeout.too") {
			c.writeTimeout = time.Second
		}
	} else {
		to := verifNondetInt64("timeout")
		verifAssume(to >= 0)
		verifAssume(to <= 1<<41)
		c.writeTimeout = time.Duration(to)
		verifTimerTo = to
	}
	k := verifNondetInt("k")
	verifAssume(k >= 1)
	verifAssume(k <= 8)
	c.Malloc(k)
	verifReach("before-flush")
	err := c.Flush()
	// nothing drains the socket and nobody closes: only an expired deadline lets Flush return
	verifAssert(err != nil && errors.Is(err, ErrWriteTimeout), "C08/flush-returned-on-a-full-quiet-socket")
	verifAssert(verifTimerDl > 0 && verifTimerDl <= verifClock, "C08/timeout-before-the-deadline")
	verifReach("end")
}
