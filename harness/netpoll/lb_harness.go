//go:build verif

package netpoll

// Shapes: reachable buffer states built by a fixed operation sequence whose sizes are
// symbolic inside one size class each (so a shape is one or two paths, not dozens); the
// operation(s) that follow are fully symbolic. Class boundaries follow the code's own
// thresholds: LinkBufferCap (4096), BinaryInplaceThreshold (4096), pagesize (8192).
const verifShapeCount = 22

func verifShape(id int) *verifLB {
	var v *verifLB
	verifLog("shape", id)
	switch id {
	case 0: // fresh buffer, any initial size
		size := verifNondetInt("size")
		verifAssume(size >= -1)
		verifAssume(size <= verifMaxLen)
		v = verifNewLB(size)
	case 1: // sentinel + one 4K node with a flushed bytes and spare room
		v = verifNewLB(0)
		v.opMallocR(1, 4095)
		v.opFlush()
	case 2: // one 4K node (flush node itself has spare capacity or is exactly full)
		v = verifNewLB(verifSizeIn(1, 4096))
		v.opMallocR(1, 4096)
		v.opFlush()
	case 3: // one 8K node
		v = verifNewLB(verifSizeIn(4097, 8192))
		v.opMallocR(1, 8192)
		v.opFlush()
	case 4: // node larger than a page: Flush appends an empty tail node
		v = verifNewLB(verifSizeIn(8193, 16384))
		v.opMallocR(1, 16384)
		v.opFlush()
	case 5: // two data nodes
		v = verifNewLB(0)
		v.opMallocR(1, 4095)
		v.opFlush()
		v.opMallocR(4096, 8192)
		v.opFlush()
	case 6: // caller-memory node (WriteBinary above the in-place threshold)
		v = verifNewLB(verifSizeIn(1, 4096))
		v.opWriteBinaryR(false, 4097, verifMaxLen)
		v.opFlush()
	case 7: // small WriteBinary is copied
		v = verifNewLB(verifSizeIn(1, 4096))
		v.opWriteBinaryR(false, 1, 4096)
		v.opFlush()
	case 8: // node split by WriteDirect
		v = verifNewLB(verifSizeIn(1, 4096))
		v.opMallocR(2, 4096)
		v.opWriteDirect()
		v.opFlush()
	case 9: // partially consumed, exposed node
		v = verifNewLB(verifSizeIn(1, 4096))
		v.opMallocR(2, 4096)
		v.opFlush()
		v.rng(1, 4096)
		v.opNext()
	case 10: // two nodes and a multi-node Peek (peek cache in use)
		v = verifNewLB(0)
		v.opMallocR(1, 4095)
		v.opFlush()
		v.opMallocR(4096, 8192)
		v.opFlush()
		v.rng(2, 8192+4095)
		v.opPeek()
	case 11: // outstanding Slice reader
		v = verifNewLB(verifSizeIn(1, 4096))
		v.opMallocR(2, 4096)
		v.opFlush()
		v.rng(1, 4096)
		v.opSlice()
	case 12: // flushed data and a pending malloc
		v = verifNewLB(verifSizeIn(1, 4096))
		v.opMallocR(1, 2048)
		v.opFlush()
		v.opMallocR(1, 4096)
	case 13: // poller-filled input buffer
		v = verifNewLB(verifSizeIn(4097, 8192))
		v.opBookAck()
		v.opBookAck()
	case 14: // two nodes, first fully skipped (head != read)
		v = verifNewLB(0)
		v.opMallocR(1, 4095)
		v.opFlush()
		v.opMallocR(4096, 8192)
		v.opFlush()
		v.rng(1, 4095)
		v.opSkip()
	case 15: // multi-node Next result held in caches
		v = verifNewLB(0)
		v.opMallocR(1025, 4095)
		v.opFlush()
		v.opMallocR(4096, 8192)
		v.opFlush()
		v.rng(1026, 8192+4095)
		v.opNext()
	case 16: // between Append of a donor with flushed bytes and the next Flush
		v = verifNewLB(verifSizeIn(1, 4096))
		v.opMallocR(1, 2048)
		v.opFlush()
		v.opAppend(0)
	case 17: // split node + a further node, Slice reader over the first part of the split origin
		v = verifNewLB(verifSizeIn(1, 4096))
		v.opMallocR(4, 64)
		first := v.pendN
		v.opWriteDirectR(1, 64, 1, 63)
		verifAssume(v.lastRemain < first)
		v.opFlush()
		v.opWriteBinaryR(false, 4097, 8192)
		v.opFlush()
		v.rng(1, 63)
		verifAssume(true)
		v.opSliceMax(first - v.lastRemain)
	case 18: // like 17, reader moved to the end of the split pair (or one byte beyond)
		v = verifNewLB(verifSizeIn(1, 4096))
		v.opMallocR(4, 64)
		first := v.pendN
		v.opWriteDirectR(1, 64, 1, 63)
		verifAssume(v.lastRemain < first)
		v.opFlush()
		v.opWriteBinaryR(false, 4097, 8192)
		v.opFlush()
		v.rng(1, 63)
		v.opSliceMax(first - v.lastRemain)
		rest := first + v.lastWD - v.slices[0].n
		v.rng(rest, rest+1)
		v.opSkip()
	case 19: // Slice reader cut from a Slice reader, first-level reader released, first node consumed
		v = verifNewLB(0)
		v.opMallocR(3, 4095)
		first := v.pendN
		v.opFlush()
		v.opMallocR(4096, 8192)
		v.opFlush()
		v.rng(2, 4095)
		v.opSliceMax(first - 1)
		a := v.slices[0].n
		v.rng(1, 4095)
		v.opSliceOfSlice()
		verifAssume(len(v.slices) == 2)
		v.opSliceReleaseIdx(0)
		v.rng(first-a, first-a)
		v.opSkip()
	case 20: // split node: header and payload consumed by a zero-copy read, trailer unread
		v = verifNewLB(verifSizeIn(1, 4096))
		v.opMallocR(4, 64)
		first := v.pendN
		v.opWriteDirectR(1, 64, 1, 63)
		verifAssume(v.lastRemain < first)
		v.opFlush()
		k := first - v.lastRemain + v.lastWD
		v.rng(k, k)
		v.opNext()
	case 21: // three data nodes (a multi-node read has a middle node)
		v = verifNewLB(0)
		v.opMallocR(1, 4095)
		v.opFlush()
		v.opMallocR(4096, 8192)
		v.opFlush()
		v.opMallocR(4096, 8192)
		v.opFlush()
	}
	return v
}

func verifSizeIn(lo, hi int) int {
	s := verifNondetInt("size")
	verifAssume(s >= lo)
	verifAssume(s <= hi)
	return s
}

// Bounded histories (DESIGN 5.1 mode B): a shape, then one arbitrary operation with
// arbitrary arguments, then drain (flush, read everything back, compare with the reference).
//
//verif:bounds 22 shapes (<=7 fixed ops, sizes symbolic per size class) x 1 arbitrary op of 25 kinds + drain (Peek, Next, slice readers, parent Release); sizes <= 8 MB; Until over <=4 readable bytes; loop unrolling 10 per header
//verif:also C02 C03
//verif:param 0 549
//verif:loop 10
func verifHarness_C01_hist1(param int) {
	v := verifShape(param / verifOpCount)
	verifReach("shape")
	v.step(param % verifOpCount)
	verifReach("op1")
	v.drain()
	verifReach("end")
}

// Two operations after a shape (thorough tier): the first one of five state-changing kinds,
// the second one arbitrary.
//
//verif:bounds 22 shapes x first op in {Malloc, WriteBinary, Flush, Next, Slice} x arbitrary second op (25 kinds) + drain; sizes <= 8 MB; loop unrolling 10
//verif:also C02 C03
//verif:tier thorough
//verif:param 0 109
//verif:loop 10
func verifHarness_C01_hist2(param int) {
	first := [5]int{verifOpMalloc, verifOpWriteBinary, verifOpFlush, verifOpNext, verifOpSlice}
	v := verifShape(param / 5)
	verifReach("shape")
	v.step(first[param%5])
	op2 := verifPick("op2", 0, verifOpCount-1)
	v.step(op2)
	verifReach("op2")
	v.drain()
	verifReach("end")
}

// Writer histories around MallocAck (quick tier): after a shape, three reservations that do not
// fit one node (so the pending part spans several nodes), a MallocAck of an arbitrary part
// (including 0 and everything), three more reservations, then the drain. What MallocAck
// discarded must never become readable and what was flushed before must stay readable —
// stale `malloc` marks on the flush node or on discarded nodes only show when later
// reservations grow into them.
//
//verif:bounds the first 8 shapes (single- and two-node buffers with and without unread/pending bytes; the other 14 make the run too slow for the quick tier) + 3 Malloc of 2049..4095 bytes + MallocAck(0..pending) + 3 Malloc of 2049..4095 bytes + drain; loop unrolling 10
//verif:also C02 C03
//verif:param 0 7
//verif:loop 10
func verifHarness_C01_histack(param int) {
	v := verifShape(param)
	verifReach("shape")
	for i := 0; i < 3; i++ {
		v.opMallocR(2049, 4095)
	}
	v.opMallocAck()
	for i := 0; i < 3; i++ {
		v.opMallocR(2049, 4095)
	}
	verifReach("writes")
	v.drain()
	verifReach("end")
}
