//go:build verif

package netpoll

import "sync/atomic"

// C19 — no data races outside the documented buffer exemption (DESIGN 5.20).
//
// The race query ("two conflicting accesses of different threads, at least one plain, adjacent
// in the global order") is posed on the partial-order harnesses of C05, C06, C07, C08 and C09
// (`//verif:also C19` there). The two harnesses below are its vacuity guard: a plain counter
// protected by a CAS lock (no race may be reported) and the same counter behind a broken
// load-then-store lock (a race must be reported).

type verifT19 struct {
	lk   int32
	data int
}

//verif:po
//verif:bounds 2 threads, one critical section each
func verifHarness_C19_guard_locked() {
	s := &verifT19{}
	body := func() {
		if atomic.CompareAndSwapInt32(&s.lk, 0, 1) {
			s.data++
			atomic.StoreInt32(&s.lk, 0)
		}
		verifReach("end")
	}
	verifThread("a", body)
	verifThread("b", body)
}

//verif:po
//verif:twin
//verif:bounds 2 threads, one critical section each (twin: must be reported racy)
func verifHarness_C19_guard_racy() {
	s := &verifT19{}
	body := func() {
		if atomic.LoadInt32(&s.lk) == 0 {
			atomic.StoreInt32(&s.lk, 1)
			s.data++
			atomic.StoreInt32(&s.lk, 0)
		}
		verifReach("end")
	}
	verifThread("a", body)
	verifThread("b", body)
}

// Release by the reader while the poller delivers more than a page of input (inputAck then
// grows maxSize under the slot token; Release reads and writes it under the same token).
//
//verif:po
//verif:bounds reader: Release twice on a connection without unread input; poller: 2 deliveries of 8193..8196 bytes
//verif:loop 40
//verif:poloop 3
//verif:potimeout 300
func verifHarness_C19_release() {
	c := verifNewConn(verifConnCfg{closeCBs: 1})
	op := c.operator
	vs := make([][]byte, 1)
	verifThread("reader", func() {
		c.Release()
		c.Release()
		verifReach("released")
	})
	verifThread("poller", func() {
		for i := 0; i < 2; i++ {
			if op.do() {
				n := verifNondetInt("chunk")
				verifAssume(n >= 8193)
				verifAssume(n <= 8196)
				op.Inputs(vs)
				op.InputAck(n)
				op.done()
			}
		}
		verifReach("delivered")
	})
}

// A closer gives a poller slot back (operatorCache.freeable: wait for the slot token, then wipe
// the operator) while the poller, holding the token, reads the operator's fields to dispatch an
// event. The token protocol (do/done against unused) is what orders the wipe after the
// poller's reads.
//
//verif:po
//verif:bounds 1 operator; closer: freeable once; poller: 1 dispatch (token, plain reads of FD / OnRead / Inputs, token back); the closer's wait for the token is unrolled 3 times
//verif:loop 40
//verif:poloop 3
//verif:potimeout 300
func verifHarness_C19_opfree() {
	verifK = &verifKMon{}
	cache := newOperatorCache()
	op := cache.alloc()
	op.FD = 7
	op.OnRead = func(p Poll) error { return nil }
	op.inuse()
	verifThread("closer", func() {
		cache.freeable(op)
		verifReach("freed")
	})
	verifThread("poller", func() {
		if op.do() {
			fd := op.FD
			on := op.OnRead
			in := op.Inputs
			_, _, _ = fd, on, in
			op.done()
		}
		verifReach("dispatched")
	})
}
