//go:build verif

package netpoll

import (
	"errors"
	"context"
	"net"
	"os"
	"syscall"
)

// C15 — every descriptor netpoll owns is closed exactly once, and no other (DESIGN 5.17).
// Ghost descriptor table: each number is free, owned by netpoll, or foreign; after a close
// the environment may re-issue the number to a foreign owner at once.

//verif:stub syscall.Close verifFdClose
//verif:stub syscall.Socket verifFdSocket
//verif:stub syscall.CloseOnExec verifFdCloseOnExec
//verif:stub syscall.SetNonblock verifFdSetNonblock
//verif:stub syscall.Syscall verifFdSyscall
//verif:stub github.com/cloudwego/netpoll.EpollCreate verifFdEpollCreate
//verif:stub github.com/cloudwego/netpoll.EpollCtl verifFdEpollCtl
//verif:stub github.com/cloudwego/netpoll.setDefaultSockopts verifFdSockopts
//verif:stub (*github.com/cloudwego/netpoll.netFD).dial verifFdDial
//verif:stub (*net.TCPListener).File verifTCPListenerFile
//verif:stub (*net.TCPListener).Close verifTCPListenerClose
//verif:stub (*net.TCPListener).Addr verifTCPListenerAddr
//verif:stub (*net.UnixListener).File verifUnixListenerFile
//verif:stub (*net.UnixListener).Close verifUnixListenerClose
//verif:stub (*net.UnixListener).Addr verifUnixListenerAddr
//verif:stub (*os.File).Fd verifFileFd
//verif:stub (*os.File).Close verifFileClose

const (
	fdFree = iota
	fdNetpoll
	fdForeign
	fdStdlib // owned by the net.Listener / os.File of the standard library
)

type verifFdTab struct {
	owner   [16]int
	closes  [16]int
	next    int
	fileFd  int // number held by the os.File returned by File()
	fileOpen bool
	lnFd    int // number held by the net.Listener itself
	lnOpen  bool
}

var verifFD *verifFdTab

func verifFdNew() *verifFdTab {
	t := &verifFdTab{next: 3}
	return t
}

func (t *verifFdTab) alloc(owner int) int {
	fd := t.next
	t.next++
	t.owner[fd] = owner
	return fd
}

func (t *verifFdTab) close(fd int, by int, label string) {
	verifAssert(fd >= 3 && fd < 16, label+"/close-of-bad-number")
	if fd < 3 || fd >= 16 {
		return
	}
	verifAssert(t.owner[fd] == by, label+"/close-of-a-descriptor-the-closer-does-not-own")
	t.closes[fd]++
	if t.owner[fd] == by {
		// the number is free again; the environment may re-issue it at once
		if verifStubBool("fd.reissued") {
			t.owner[fd] = fdForeign
		} else {
			t.owner[fd] = fdFree
		}
	}
}

func verifFdClose(fd int) error {
	verifFD.close(fd, fdNetpoll, "C15/syscall.Close")
	return nil
}

func verifFdSocket(domain, typ, proto int) (int, error) {
	if verifStubBool("socket.fails") {
		return -1, syscall.EMFILE
	}
	return verifFD.alloc(fdNetpoll), nil
}

func verifFdCloseOnExec(fd int) {}

func verifFdSetNonblock(fd int, nb bool) error {
	if verifStubBool("setnonblock.fails") {
		return syscall.EBADF
	}
	return nil
}

func verifFdSyscall(trap, a1, a2, a3 uintptr) (uintptr, uintptr, syscall.Errno) {
	// only SYS_EVENTFD2 reaches here
	if verifStubBool("eventfd.fails") {
		return 0, 0, syscall.EMFILE
	}
	return uintptr(verifFD.alloc(fdNetpoll)), 0, 0
}

func verifFdEpollCreate(flag int) (int, error) {
	if verifStubBool("epollcreate.fails") {
		return -1, syscall.EMFILE
	}
	return verifFD.alloc(fdNetpoll), nil
}

func verifFdEpollCtl(epfd, op, fd int, event *epollevent) error {
	if verifStubBool("epollctl.fails") {
		return syscall.ENOMEM
	}
	return nil
}

func verifFdSockopts(s, family, sotype int, ipv6only bool) error {
	if verifStubBool("sockopt.fails") {
		return syscall.EINVAL
	}
	return nil
}

func verifFdDial(c *netFD, ctx context.Context, laddr, raddr sockaddr) error {
	if verifStubBool("dial.fails") {
		return syscall.ECONNREFUSED
	}
	return nil
}

// the standard library's listener: owns lnFd; File() returns a duplicate owned by the os.File
func verifTCPListenerFile(l *net.TCPListener) (*os.File, error) {
	if verifStubBool("file.fails") {
		return nil, syscall.EMFILE
	}
	verifFD.fileFd = verifFD.alloc(fdStdlib)
	verifFD.fileOpen = true
	return new(os.File), nil
}
// (package net's own variables are not initialised in the interpreter: a harness error stands in)
var verifErrLnClosed = errors.New("use of closed network connection")

func verifTCPListenerClose(l *net.TCPListener) error {
	if verifFD.lnOpen {
		verifFD.close(verifFD.lnFd, fdStdlib, "C15/net.Listener.Close")
		verifFD.lnOpen = false
		return nil
	}
	// as package net: closing a closed listener is an error
	return verifErrLnClosed
}
func verifTCPListenerAddr(l *net.TCPListener) net.Addr { return verifAddr{} }
func verifUnixListenerFile(l *net.UnixListener) (*os.File, error) {
	if verifStubBool("file.fails") {
		return nil, syscall.EMFILE
	}
	verifFD.fileFd = verifFD.alloc(fdStdlib)
	verifFD.fileOpen = true
	return new(os.File), nil
}
func verifUnixListenerClose(l *net.UnixListener) error {
	if verifFD.lnOpen {
		verifFD.close(verifFD.lnFd, fdStdlib, "C15/net.Listener.Close")
		verifFD.lnOpen = false
		return nil
	}
	// as package net: closing a closed listener is an error
	return verifErrLnClosed
}
func verifUnixListenerAddr(l *net.UnixListener) net.Addr { return verifAddr{} }

func verifFileFd(f *os.File) uintptr { return uintptr(verifFD.fileFd) }

// os.File.Close closes the number the File owns (if it is still open)
func verifFileClose(f *os.File) error {
	if !verifFD.fileOpen {
		return os.ErrClosed
	}
	verifFD.fileOpen = false
	verifFD.close(verifFD.fileFd, fdStdlib, "C15/os.File.Close")
	return nil
}

func (t *verifFdTab) checkAllClosed(label string) {
	for fd := 3; fd < 16; fd++ {
		verifAssert(t.owner[fd] != fdNetpoll && t.owner[fd] != fdStdlib, label+"/descriptor-left-open")
		verifAssert(t.closes[fd] <= 1, label+"/descriptor-number-closed-twice")
	}
}

// ConvertListener + Close for a TCP (0) or unix (1) listener.
//
//verif:bounds one listener lifecycle; File() may fail; the caller may close its own net.Listener first; Close may be called twice; after every close the number may be re-issued to a foreign owner
//verif:param 0 1
//verif:loop 20
//verif:replay interp
func verifHarness_C15_listener(kind int) {
	verifFD = verifFdNew()
	verifFD.lnFd = verifFD.alloc(fdStdlib)
	verifFD.lnOpen = true
	var l net.Listener
	if kind == 0 {
		l = new(net.TCPListener)
	} else {
		l = new(net.UnixListener)
	}
	nl, err := ConvertListener(l)
	if err != nil {
		// the caller still owns its net.Listener and closes it
		l.Close()
		verifFD.checkAllClosed("C15/listener-convert-failed")
		verifReach("convert-failed")
		return
	}
	verifReach("converted")
	if verifNondetBool("caller.closes.first") {
		// the caller closes its own net.Listener before the netpoll one
		l.Close()
	}
	nl.Close()
	if verifNondetBool("close.again") {
		nl.Close()
	}
	verifFD.checkAllClosed("C15/listener")
	verifReach("end")
}

// openDefaultPoll with every failure point; on success the poller's Close path releases both.
//
//verif:bounds epoll_create / eventfd / epoll_ctl may each fail
//verif:loop 20
//verif:replay interp
func verifHarness_C15_openpoll() {
	verifFD = verifFdNew()
	p, err := openDefaultPoll()
	if err != nil {
		verifAssert(p == nil, "C15/poll-and-error")
		verifFD.checkAllClosed("C15/openpoll-failed")
		verifReach("failed")
		return
	}
	verifAssert(verifFD.owner[p.fd] == fdNetpoll && verifFD.owner[p.wop.FD] == fdNetpoll, "C15/poll-descriptors-not-open")
	verifReach("end")
}

// sysSocket / socket with every failure point.
//
//verif:bounds socket / setnonblock / sockopts / dial may each fail
//verif:loop 20
//verif:replay interp
func verifHarness_C15_socket() {
	verifFD = verifFdNew()
	nfd, err := socket(context.Background(), "tcp", syscall.AF_INET, syscall.SOCK_STREAM, 0, false, nil, nil)
	if err != nil {
		verifAssert(nfd == nil, "C15/socket-and-error")
		verifFD.checkAllClosed("C15/socket-failed")
		verifReach("failed")
		return
	}
	verifAssert(verifFD.owner[nfd.fd] == fdNetpoll, "C15/socket-not-open")
	nfd.Close()
	verifFD.checkAllClosed("C15/socket-closed")
	// a second Close is harmless
	nfd.Close()
	verifFD.checkAllClosed("C15/socket-closed-again")
	verifReach("end")
}

// Accept path: a connection accepted by the server and rejected by OnPrepare (or accepted and
// later closed by the user): its descriptor is closed exactly once. The listener is a ghost.
type verifLn15 struct{}

func (l *verifLn15) Accept() (net.Conn, error) { return nil, nil }
func (l *verifLn15) Close() error              { return nil }
func (l *verifLn15) Addr() net.Addr            { return verifAddr{} }
func (l *verifLn15) Fd() int                   { return 2 }

//verif:bounds one accepted connection; OnPrepare closes it or not; the user closes it afterwards or not
//verif:loop 40
//verif:replay interp
func verifHarness_C15_accept() {
	verifFD = verifFdNew()
	verifK = &verifKMon{}
	runner_RunTask_set()
	pollmanager = newManager(1)
	pollmanager.Pick()
	for verifRunPending() {
	}
	// descriptors opened so far belong to the poller; forget them (they are not the subject)
	verifFD = verifFdNew()
	fd := verifFD.alloc(fdNetpoll)
	reject := verifNondetBool("onprepare.closes")
	opts := &options{}
	var accepted Connection
	opts.onPrepare = func(c Connection) context.Context {
		accepted = c
		if reject {
			c.Close()
		}
		return nil
	}
	s := newServer(&verifLn15{}, opts, func(err error) {})
	nfd := newNetFD(fd, 2, 1, "tcp")
	nfd.localAddr = verifAddr{}
	nfd.remoteAddr = verifAddr{}
	s.onAccept(nfd)
	for verifRunPending() {
	}
	if !reject {
		// (registration may have failed: then init has closed the connection already)
		// the user closes the tracked connection
		accepted.Close()
		for verifRunPending() {
		}
	}
	verifAssert(verifFD.closes[fd] == 1, "C15/accepted-descriptor-not-closed-exactly-once")
	verifFD.checkAllClosed("C15/accept")
	verifReach("end")
}
