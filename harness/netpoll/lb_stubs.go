//go:build verif

package netpoll

import "sync"

// Allocator stubs (DESIGN 2.6 / 5.1): ghost ledger over fresh, never re-issued blocks with
// arbitrary ("dirty") content. Only active in the symbolic run; natively the real pools run.

//verif:stub github.com/bytedance/gopkg/lang/mcache.Malloc verifMcacheMalloc
//verif:stub github.com/bytedance/gopkg/lang/mcache.Free verifMcacheFree
//verif:stub github.com/bytedance/gopkg/lang/dirtmake.Bytes verifDirtBytes
//verif:stub (*sync.Pool).Get verifPoolGet
//verif:stub (*sync.Pool).Put verifPoolPut
//verif:stub bytes.IndexByte verifIndexByte

// mcache.Malloc: capacity is the smallest power of two >= max(size, capacity[0]) (1 for 0).
func verifMcacheMalloc(size int, capacity ...int) []byte {
	c := size
	if len(capacity) > 0 && capacity[0] > size {
		c = capacity[0]
	}
	cc := verifStubInt("mcache.cap")
	verifAssume(cc >= 1 && cc >= c && cc <= 1<<45)
	verifAssume(cc&(cc-1) == 0)
	verifAssume(cc == 1 || cc>>1 < c)
	b := verifNewBlock("pool", cc)
	verifGhostSet("pool.live", verifBlockID(b), 1)
	verifLedgerMallocs++
	return b[:size]
}

var (
	verifLedgerMallocs int
	verifLedgerFrees   int
	verifLedgerIgnored int // Free of a slice whose cap is not a power of two: silently dropped by mcache
)

// mcache.Free files the block by cap(buf) and by buf's data pointer; a cap that is not a
// power of two is ignored. Ledger obligations (C03): the slice starts at the block's first
// byte with the block's capacity, the block came from the pool, and it is not free already.
func verifMcacheFree(buf []byte) {
	size := cap(buf)
	if size&(size-1) != 0 || size == 0 {
		verifLedgerIgnored++
		return
	}
	id := verifBlockID(buf)
	verifAssert(id != 0 && verifBlockIs(buf, "pool"), "C03/free-of-non-pool-memory")
	verifAssert(verifBlockOff(buf) == 0 && verifBlockCap(buf) == size, "C03/free-of-interior-slice")
	verifAssert(verifGhostGet("pool.freed", id) == 0, "C03/double-free")
	verifAssert(verifGhostGet("lease", id) == 0, "C02/free-while-leased")
	verifAssert(verifGhostGet("hold", id) == 0, "C02/free-while-slice-reader-shares-block")
	verifAssert(verifGhostGet("hold", id) == 0 && verifGhostGet("lease", id) == 0, "C03/free-before-every-reader-released")
	verifGhostSet("pool.freed", id, 1)
	verifLedgerFrees++
}

func verifDirtBytes(l, c int) []byte {
	if l < 0 || l > c {
		panic("dirtmake.Bytes: len out of range")
	}
	b := verifNewBlock("dirt", c)
	return b[:l]
}

func verifPoolGet(p *sync.Pool) interface{} {
	if p.New == nil {
		return nil
	}
	return p.New()
}

func verifPoolPut(p *sync.Pool, x interface{}) {
	id := verifObjID(x)
	verifAssert(verifGhostGet("objpool.in", id) == 0, "C03/node-returned-twice")
	verifGhostSet("objpool.in", id, 1)
}

//verif:loop bytes.IndexByte is unrolled over the (bounded) slice
func verifIndexByte(b []byte, c byte) int {
	for i := 0; i < len(b); i++ {
		if b[i] == c {
			return i
		}
	}
	return -1
}
