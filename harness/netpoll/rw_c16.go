//go:build verif

package netpoll

import (
	"errors"
	"io"
)

// C16 — stream adapters over arbitrary io.Reader / io.Writer behaviour (DESIGN 5.4).

var verifErrSrc = errors.New("verif: source error")

// verifSrc is an io.Reader whose every answer is chosen by the solver: any count in
// [-1, len(buf)], with or without an error, data together with an error allowed. The bytes it
// "writes" are whatever the destination memory holds (arbitrary), recorded in the reference.
type verifSrc struct {
	produced int // rope of everything produced so far
	total    int
	calls    int
	maxCalls int
	lastErr  error
	sawEOF   bool
	sawErr   bool
	lastNeg  bool
}

func (s *verifSrc) Read(buf []byte) (int, error) {
	// bound: at most maxCalls source calls per harness (stated bound; a source that returns
	// (0,nil) for ever makes waitRead loop for ever and is outside the claim)
	verifAssume(s.calls < s.maxCalls)
	s.calls++
	n := verifNondetInt("src.n")
	verifAssume(n >= -1)
	verifAssume(n <= len(buf))
	kind := verifPick("src.err", 0, 2)
	var err error
	switch kind {
	case 1:
		err = io.EOF
		s.sawEOF = true
	case 2:
		err = verifErrSrc
		s.sawErr = true
	}
	if n > 0 {
		verifFill(buf[:n])
		verifRopeAppend(s.produced, buf[:n])
		s.total += n
	}
	s.lastErr = err
	s.lastNeg = n < 0
	return n, err
}

type verifZR struct {
	r        *zcReader
	src      *verifSrc
	consumed int
}

func verifNewZR(maxCalls int) *verifZR {
	z := &verifZR{}
	z.src = &verifSrc{produced: verifRopeNew(), maxCalls: maxCalls}
	z.r = newZCReader(z.src)
	return z
}

// invariant after every call: every produced byte that was not consumed is still buffered
func (z *verifZR) checkLen(label string) {
	verifAssert(z.r.Len() == z.src.total-z.consumed, label)
}

// one reader call of kind k with a symbolic n
func (z *verifZR) call(k int) {
	n := verifNondetInt("zr.n")
	verifAssume(n >= -1)
	verifAssume(n <= 3*block4k)
	before := z.src.total - z.consumed
	errsBefore := z.src.calls
	var p []byte
	var err error
	isPeek := false
	switch k {
	case 0:
		p, err = z.r.Next(n)
	case 1:
		p, err = z.r.Peek(n)
		isPeek = true
	case 2:
		err = z.r.Skip(n)
	case 3:
		p, err = z.r.ReadBinary(n)
	case 4:
		var s string
		s, err = z.r.ReadString(n)
		p = verifStrBytes(s)
	case 5:
		var r Reader
		r, err = z.r.Slice(n)
		if err == nil && n > 0 {
			verifAssert(r != nil && r.Len() == n, "C16/slice-len")
			p, _ = r.Next(n)
		}
	case 6:
		var c byte
		verifAssume(n == 1)
		c, err = z.r.ReadByte()
		if err == nil {
			verifAssert(c == verifRopeByte(z.src.produced, z.consumed), "C16/readbyte-value")
		}
	}
	_ = errsBefore
	if err != nil {
		// an error is only acceptable when the source reported one during this call and the
		// request could not be served from what was buffered before it
		verifAssert(n > before, "C16/error-although-buffered")
		// (a negative count is a contract breach by the source, reported as an error too)
		verifAssert(z.src.lastErr != nil || z.src.lastNeg, "C16/error-without-source-error")
		if z.src.lastErr == io.EOF {
			verifAssert(errors.Is(err, ErrEOF), "C16/eof-not-surfaced-as-ErrEOF")
		}
		// nothing was consumed, nothing lost
		z.checkLen("C16/len-after-error")
		return
	}
	if n > 0 {
		if k != 2 && k != 6 {
			verifAssert(len(p) == n, "C16/result-len")
			verifAssert(verifRopeMatch(z.src.produced, z.consumed, p), "C16/result-bytes")
		}
		if !isPeek {
			z.consumed += n
		}
	}
	z.checkLen("C16/len-after-call")
}

// errors.Is over the exception type is plain netpoll code; the std errors.Is uses reflectlite,
// which the encoder does not interpret, so it is replaced by this equivalent loop.
//
//verif:stub errors.Is verifErrorsIs
func verifErrorsIs(err, target error) bool {
	for i := 0; i < 4; i++ {
		if err == nil {
			return false
		}
		if err == target {
			return true
		}
		if x, ok := err.(interface{ Is(error) bool }); ok && x.Is(target) {
			return true
		}
		u, ok := err.(interface{ Unwrap() error })
		if !ok {
			return false
		}
		err = u.Unwrap()
	}
	return false
}

// zcReader: two successive reader calls of any kind over a source with arbitrary behaviour.
//
//verif:bounds 2 successive reader calls (7 kinds each) + a final Peek of everything buffered, n <= 12 KB, <= 3 source calls in total, every count/err combination per source call; default LinkBufferCap
//verif:param 0 48
//verif:loop 20
func verifHarness_C16_zcreader(param int) {
	z := verifNewZR(3)
	z.call(param / 7)
	verifReach("call1")
	if param < 49 {
		z.call(param % 7)
	}
	// whatever the two calls were, everything still buffered reads back as the stream from the
	// consumption point (a stale peek cache or a lost node would show here)
	if left := z.r.Len(); left > 0 {
		p, err := z.r.Peek(left)
		verifAssert(err == nil && len(p) == left, "C16/final-peek")
		verifAssert(verifRopeMatch(z.src.produced, z.consumed, p), "C16/final-peek-bytes")
	}
	verifReach("end")
}

// The node size is an exported variable: the (0,nil)/short-read path of fill depends on where
// the 4 KB malloc lands relative to the flush node, which depends on LinkBufferCap.
//
//verif:bounds as zcreader but one call of kinds {Next,Peek,Skip} then Next(1); LinkBufferCap symbolic in [1, 64 KB]
//verif:param 0 2
//verif:loop 20
func verifHarness_C16_zcreadercap(param int) {
	c := verifNondetInt("LinkBufferCap")
	verifAssume(c >= 1)
	verifAssume(c <= 65536)
	LinkBufferCap = c
	z := verifNewZR(3)
	z.call(param)
	z.call(0)
	verifReach("end")
}

// ---------------------------------------------------------------- zcWriter

type verifSink struct {
	got      int // rope of accepted bytes
	total    int
	calls    int
	maxCalls int
}

func (s *verifSink) Write(p []byte) (int, error) {
	verifAssume(s.calls < s.maxCalls)
	s.calls++
	n := verifNondetInt("sink.n")
	verifAssume(n >= 0)
	verifAssume(n <= len(p))
	var err error
	// io.Writer contract: a short write returns a non-nil error; an error may also come with n == len(p)
	if n < len(p) || verifNondetBool("sink.err") {
		err = verifErrSrc
	}
	if n > 0 {
		verifRopeAppend(s.got, p[:n])
		s.total += n
	}
	return n, err
}

// zcWriter: writes through the buffer model, then Flush twice with arbitrary short writes:
// the sink's stream is exactly the flushed stream, once, in order.
//
//verif:bounds Malloc(1..4096), 1 writer op of 8 kinds (sizes <= 8193), then 2 x Flush with arbitrary short write / error, a further Malloc in between
//verif:param 0 7
//verif:loop 12
func verifHarness_C16_zcwriter(param int) {
	sink := &verifSink{got: verifRopeNew(), maxCalls: 2}
	w := newZCWriter(sink)
	v := &verifLB{b: w.buf, segs: verifRopeNew(), pend: verifRopeNew(), argLo: -1, argHi: verifMaxLen, maxW: 8193}
	ops := [8]int{verifOpMalloc, verifOpWriteBinary, verifOpWriteString, verifOpWriteByte, verifOpWriteDirect, verifOpMallocAck, verifOpAppendPending, verifOpAppend}
	v.opMallocR(1, 4096)
	v.step(ops[param])
	for i := 0; i < 2; i++ {
		// model bookkeeping of Flush, then the real zcWriter.Flush
		verifRopeMove(v.segs, v.pend)
		v.flushed += v.pendN
		v.pendN, v.windowLen, v.window, v.pendBin = 0, 0, false, false
		before := sink.total
		err := w.Flush()
		took := sink.total - before
		// what the sink accepted is the next `took` bytes of the flushed stream
		verifAssert(took <= v.flushed-v.consumed, "C16/sink-got-more-than-flushed")
		v.consumed += took
		verifAssert(err != nil || v.consumed == v.flushed, "C16/flush-nil-but-bytes-left")
		verifAssert(w.buf.Len() == v.flushed-v.consumed, "C16/writer-len")
		if i == 0 {
			v.opMallocR(1, 4096)
		}
	}
	// the whole sink stream equals the flushed stream prefix
	verifAssert(sink.total == v.consumed, "C16/sink-total")
	verifAssert(verifRopePrefix(v.segs, sink.got, sink.total), "C16/sink-stream")
	verifReach("end")
}

// ioReader.Read / ioWriter.Write over a LinkBuffer.
//
//verif:bounds shapes 1,2,5 then Read(p) with len(p) symbolic <= 8 MB, twice; Write(p) then read back
//verif:param 0 2
//verif:loop 12
func verifHarness_C16_ioadapters(param int) {
	shapes := [3]int{1, 2, 5}
	v := verifShape(shapes[param])
	r := newIOReader(v.b)
	for i := 0; i < 2; i++ {
		m := verifNondetInt("ioread.len")
		verifAssume(m >= 0)
		verifAssume(m <= verifMaxLen)
		dst := verifNondetBytes("ioread.dst", m)
		n, err := r.Read(dst)
		have := v.readable()
		want := verifIteInt(m < have, m, have)
		if m == 0 {
			verifAssert(n == 0 && err == nil, "C16/ioread-empty-dst")
		} else if have == 0 {
			verifAssert(n == 0 && err == io.EOF, "C16/ioread-eof")
		} else {
			verifAssert(err == nil && n == want, "C16/ioread-count")
			verifAssert(verifRopeMatch(v.segs, v.consumed, dst[:n]), "C16/ioread-bytes")
			v.consumed += n
		}
		verifAssert(v.b.Len() == v.readable(), "C16/ioread-len")
	}
	// ioWriter
	w := newIOWriter(v.b)
	k := verifNondetInt("iowrite.len")
	verifAssume(k >= 0)
	verifAssume(k <= verifMaxLen)
	src := verifNondetBytes("iowrite.src", k)
	n, err := w.Write(src)
	verifAssert(err == nil && n == k, "C16/iowrite-ret")
	verifRopeAppend(v.segs, src)
	v.flushed += k
	v.checkLens("C16/iowrite")
	v.drain()
	verifReach("end")
}
