//go:build verif

package netpoll

import (
	"context"
	"sync/atomic"
	"unsafe"
)

// C10 — isolation across slot and descriptor reuse (DESIGN 5.12), as sequential histories
// over the real operatorCache / FDOperator / defaultPoll code with real buffers:
//
//   A registered, an event for A fetched -> A closed (by user or by hang-up) -> [poller ends
//   the batch: opcache.free()] -> B opened (may get A's slot and descriptor number) -> a stale
//   call on A -> the fetched event is dispatched / a fresh event for B is dispatched.
//
// The order of "end of batch" and "B opens" and the kind of stale call are solver choices.

type verifBMon struct {
	reqs   int32
	hups   int32
	closed int32
}

var verifB *verifBMon

func verifHandlerB(ctx context.Context, conn Connection) error {
	atomic.AddInt32(&verifB.reqs, 1)
	l := conn.Reader().Len()
	conn.Reader().Skip(l)
	return nil
}

func verifNewConnOn(fd int, h OnRequest) *connection {
	nfd := newNetFD(fd, 2, 1, "tcp")
	nfd.localAddr = verifAddr{}
	nfd.remoteAddr = verifAddr{}
	c := &connection{}
	opts := &options{}
	opts.onRequest = h
	err := c.init(nfd, opts)
	verifAssume(err == nil)
	return c
}

const (
	st10Release = iota
	st10Close
	st10Next
	st10Flush
	st10Malloc
	st10Len
	st10Kinds
)

//verif:bounds 2 connections over one poller and its slot cache; 1 fetched event for A; close by user, by hang-up, or by user while A's fetched hang-up is still queued for delivery; batch end before/after B opens; free slot chain empty or not; 6 kinds of stale call; descriptor number of B equal to A's or different
//verif:param 0 71
//verif:loop 40
//verif:replay interp
func verifHarness_C10_reuse(param int) {
	stale := param % st10Kinds
	closeMode := (param / st10Kinds) % 3 // 0 user, 1 hang-up delivered, 2 hang-up fetched, user closes, delivery pending
	freeFirst := (param/st10Kinds/3)%2 == 1
	exhausted := (param/st10Kinds/6)%2 == 1
	verifK = &verifKMon{}
	verifB = &verifBMon{}
	runner_RunTask_set()
	pollmanager = newManager(1)
	a := verifNewConnOn(7, nil)
	opA := a.operator
	p := opA.poll.(*defaultPoll)
	p.Reset = p.reset
	p.Handler = p.handler
	p.Reset(2, 2)
	// the kernel reports an event for A; the poller has fetched it (it carries A's slot)
	events := make([]epollevent, 1)
	events[0].events = 0x1
	p.setOperator(unsafe.Pointer(&events[0].data), opA)
	if exhausted {
		// every other slot of the cache block is owned by some other connection
		p.opcache.first = nil
	}
	// A goes away. When close(2) is issued on its descriptor (from then on the number can be
	// re-issued to another connection) the poller must be unable to dispatch through A's slot
	// any more: the slot has been given up (Free waits for the poller's token).
	verifCloseHook = func(fd int) {
		if fd == 7 {
			verifAssert(opA.isUnused(), "C10/descriptor-released-while-the-poller-may-still-dispatch-through-its-slot")
		}
	}
	switch closeMode {
	case 1:
		if opA.do() {
			p.appendHup(opA)
		}
		p.onhups()
		for verifRunPending() {
		}
		a.Close()
	case 0:
		a.Close()
	case 2:
		// the poller has fetched A's hang-up and queued it; the user closes A before the
		// delivery goroutine (started at the end of the batch) has run
		if opA.do() {
			p.appendHup(opA)
		}
		a.Close()
		p.onhups()
	}
	if closeMode != 2 {
		for verifRunPending() {
		}
	}
	verifCloseHook = nil
	verifAssert(opA.isUnused(), "C10/closed-connection-keeps-its-slot")
	if freeFirst {
		p.opcache.free()
	}
	// B opens; the environment may hand it A's descriptor number
	fdB := 9
	if verifNondetBool("same.fd") {
		fdB = 7
	}
	b := verifNewConnOn(fdB, verifHandlerB)
	opB := b.operator
	if !freeFirst {
		// the batch that fetched A's event is not finished: A's slot must not be re-issued
		verifAssert(opB != opA, "C10/slot-reassigned-while-a-fetched-event-may-still-use-it")
	}
	verifReach("b-open")
	lenB := b.inputBuffer.Len()
	stateB := opB.state
	// a stale call on the closed connection A
	switch stale {
	case st10Release:
		a.Release()
	case st10Close:
		a.Close()
	case st10Next:
		_, err := a.Next(1)
		verifAssert(err != nil, "C10/stale-read-succeeds")
	case st10Flush:
		err := a.Flush()
		verifAssert(err != nil, "C10/stale-flush-succeeds")
	case st10Malloc:
		_, err := a.Malloc(8)
		verifAssert(err != nil, "C10/stale-malloc-succeeds")
	case st10Len:
		_ = a.Len()
	}
	for verifRunPending() {
	}
	verifAssert(b.inputBuffer.Len() == lenB, "C10/stale-call-changed-other-connections-input")
	verifAssert(opB.state == stateB, "C10/stale-call-changed-other-connections-slot-token")
	verifAssert(b.IsActive(), "C10/stale-call-closed-other-connection")
	verifAssert(atomic.LoadInt32(&verifB.reqs) == 0, "C10/stale-call-invoked-other-connections-handler")
	// B's slot still works: the poller can take its token
	verifAssert(opB.do(), "C10/other-connection-ignored-by-poller")
	opB.done()
	verifReach("end")
}

// The same history with the stale call running concurrently with the poller (partial-order):
// A is closed, its slot has been recycled and re-issued to B; a goroutine that still holds A
// calls Release / Close / Len on it while the poller dispatches an event for B. The poller
// must get B's slot token (an event skipped because somebody else held the token is lost for
// edge-triggered registrations), and B stays untouched.
//
//verif:po
//verif:bounds 2 connections, B owns A's recycled slot; 1 stale call (Release, Close or Len) on A || 1 poller dispatch on B
//verif:param 0 2
//verif:loop 40
//verif:poloop 3
//verif:potimeout 300
func verifHarness_C10_stalepo(kind int) {
	verifK = &verifKMon{}
	verifB = &verifBMon{}
	runner_RunTask_set()
	pollmanager = newManager(1)
	a := verifNewConnOn(7, nil)
	opA := a.operator
	p := opA.poll.(*defaultPoll)
	// every other slot of the cache block is owned by some other connection
	p.opcache.first = nil
	a.Close()
	for verifRunPending() {
	}
	p.opcache.free()
	b := verifNewConnOn(7, verifHandlerB)
	opB := b.operator
	verifAssume(opB == opA)
	verifThread("stale", func() {
		switch kind {
		case 0:
			a.Release()
		case 1:
			a.Close()
		case 2:
			_ = a.Len()
		}
		verifReach("stale-done")
	})
	verifThread("poller", func() {
		ok := opB.do()
		verifAssert(ok, "C10/poller-could-not-take-the-slot-token-of-another-connection-during-a-stale-call")
		if ok {
			opB.done()
		}
		verifReach("dispatched")
	})
	verifFinal("quiescent", func() {
		verifAssert(b.IsActive(), "C10/stale-call-closed-other-connection")
		verifAssert(atomic.LoadInt32(&opB.state) == 1, "C10/stale-call-changed-other-connections-slot-token")
	})
}
