//go:build verif

package netpoll

// ghost poller used by the pool-manager harnesses
type verifPoll struct {
	id      int
	running bool
	closed  bool
}

func (p *verifPoll) Wait() error                                    { p.running = true; return nil }
func (p *verifPoll) Close() error                                   { p.closed = true; return nil }
func (p *verifPoll) Trigger() error                                 { return nil }
func (p *verifPoll) Control(operator *FDOperator, e PollEvent) error { return nil }
func (p *verifPoll) Alloc() (operator *FDOperator)                  { return &FDOperator{} }
func (p *verifPoll) Free(operator *FDOperator)                      {}

// Round-robin arithmetic: for every pool size s in [1,8] and every counter value a < 2^62,
// s consecutive picks return s distinct pollers, all in range.
//
//verif:bounds pool size s in [1,8]; counter a in [0,2^62); s consecutive picks
//verif:param 1 8
func verifHarness_C18_roundrobin(s int) {
	polls := make([]Poll, s)
	vp := make([]*verifPoll, s)
	for i := 0; i < s; i++ {
		vp[i] = &verifPoll{id: i}
		polls[i] = vp[i]
	}
	lb := newLoadbalance(RoundRobin, polls).(*roundRobinLB)
	a := verifNondetInt("accepted")
	verifAssume(a >= 0 && a < 1<<62)
	lb.accepted = uintptr(a)
	seen := make([]bool, s)
	for i := 0; i < s; i++ {
		p := lb.Pick().(*verifPoll)
		verifAssert(!seen[p.id], "C18/rr-distinct")
		seen[p.id] = true
	}
	verifReach("end")
}
