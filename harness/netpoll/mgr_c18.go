//go:build verif

package netpoll

import "sync/atomic"

// ghost poller used by the pool-manager harnesses
type verifPoll struct {
	id      int
	running bool
	closed  bool
}

func (p *verifPoll) Wait() error {
	if verifMgrPO {
		return nil
	}
	p.running = true
	return nil
}
func (p *verifPoll) Close() error                                   { p.closed = true; return nil }
func (p *verifPoll) Trigger() error                                 { return nil }
func (p *verifPoll) Control(operator *FDOperator, e PollEvent) error { return nil }
func (p *verifPoll) Alloc() (operator *FDOperator)                  { return &FDOperator{} }
func (p *verifPoll) Free(operator *FDOperator)                      {}

// Round-robin arithmetic: for every pool size s in [1,8] and every counter value a < 2^62,
// s consecutive picks return s distinct pollers, all in range.
//
//verif:bounds pool size s in [1,8]; counter a in [0,2^62); s consecutive picks
//verif:param 1 8
func verifHarness_C18_roundrobin(s int) {
	polls := make([]Poll, s)
	vp := make([]*verifPoll, s)
	for i := 0; i < s; i++ {
		vp[i] = &verifPoll{id: i}
		polls[i] = vp[i]
	}
	lb := newLoadbalance(RoundRobin, polls).(*roundRobinLB)
	a := verifNondetInt("accepted")
	verifAssume(a >= 0 && a < 1<<62)
	lb.accepted = uintptr(a)
	seen := make([]bool, s)
	for i := 0; i < s; i++ {
		p := lb.Pick().(*verifPoll)
		verifAssert(!seen[p.id], "C18/rr-distinct")
		seen[p.id] = true
	}
	verifReach("end")
}

//verif:stub github.com/cloudwego/netpoll.openPoll verifMgrOpenPoll
//verif:stub github.com/bytedance/gopkg/lang/fastrand.Intn verifFastrandIntn

var verifMgrPolls [12]*verifPoll
var verifMgrN int

// set by the partial-order harness in its prologue: pollers are only counted there
var verifMgrPO bool
var verifMgrOpened int32
var verifMgrSpare *verifPoll

func verifMgrOpenPoll() (Poll, error) {
	if verifMgrPO {
		atomic.AddInt32(&verifMgrOpened, 1)
		return verifMgrSpare, nil
	}
	p := &verifPoll{id: verifMgrN}
	verifMgrPolls[verifMgrN] = p
	verifMgrN++
	return p, nil
}

func verifFastrandIntn(n int) int {
	v := verifStubInt("fastrand")
	verifAssume(v >= 0)
	verifAssume(v < n)
	return v
}

func verifMgrCheck(m *manager, want int, label string) {
	open := 0
	for i := 0; i < verifMgrN; i++ {
		if !verifMgrPolls[i].closed {
			open++
			verifAssert(verifMgrPolls[i].running, label+"/open-poller-not-running")
		}
	}
	verifAssert(open == want, label+"/number-of-running-pollers-differs-from-configuration")
	verifAssert(len(m.polls) == want, label+"/pool-size-differs-from-configuration")
	for i := 0; i < len(m.polls); i++ {
		verifAssert(!m.polls[i].(*verifPoll).closed, label+"/closed-poller-in-pool")
	}
}

// Reconfiguration between phases (sequential): a loops, Pick, then b loops (and possibly
// another balancing mode), Pick again, then c loops: after each phase's first Pick exactly the
// configured number of pollers run, the surplus ones are closed, and every Pick returns a
// running member of the pool; round-robin visits every member.
//
//verif:bounds loop counts a,b,c in [1,4]; balancing mode switched to random or not; go poll.Wait() run at once
//verif:param 1 4
//verif:loop 20
//verif:replay interp
func verifHarness_C18_reconfig(a int) {
	verifMgrN = 0
	m := newManager(a)
	p := m.Pick()
	for verifRunPending() {
	}
	verifAssert(p != nil && !p.(*verifPoll).closed, "C18/phase1/pick-returned-closed-poller")
	verifMgrCheck(m, a, "C18/phase1")
	b := verifPick("b", 1, 4)
	m.SetNumLoops(b)
	wantRR := true
	if verifNondetBool("switch.lb") {
		m.SetLoadBalance(Random)
		wantRR = false
	}
	seen := make([]bool, 12)
	for i := 0; i < b; i++ {
		q := m.Pick()
		for verifRunPending() {
		}
		verifAssert(q != nil && !q.(*verifPoll).closed && q.(*verifPoll).running, "C18/phase2/pick-returned-dead-poller")
		seen[q.(*verifPoll).id] = true
	}
	verifMgrCheck(m, b, "C18/phase2")
	if wantRR {
		for i := 0; i < len(m.polls); i++ {
			verifAssert(seen[m.polls[i].(*verifPoll).id], "C18/phase2/round-robin-skipped-a-poller")
		}
	}
	c := verifPick("c", 1, 4)
	m.SetNumLoops(c)
	r := m.Pick()
	for verifRunPending() {
	}
	verifAssert(r != nil && !r.(*verifPoll).closed, "C18/phase3/pick-returned-closed-poller")
	verifMgrCheck(m, c, "C18/phase3")
	verifReach("end")
}

// A setting that no Pick ever sees: a loops, Pick, SetNumLoops(b0), SetNumLoops(b), Pick: the
// pool has b running loops (in particular when b equals the current size a and b0 does not).
//
//verif:bounds loop counts a,b0,b in [1,4]; one Pick per phase
//verif:param 1 4
//verif:loop 20
//verif:replay interp
func verifHarness_C18_settwice(a int) {
	verifMgrN = 0
	m := newManager(a)
	p := m.Pick()
	for verifRunPending() {
	}
	verifAssert(p != nil && !p.(*verifPoll).closed, "C18/phase1/pick-returned-closed-poller")
	verifMgrCheck(m, a, "C18/phase1")
	m.SetNumLoops(verifPick("b0", 1, 4))
	b := verifPick("b", 1, 4)
	m.SetNumLoops(b)
	q := m.Pick()
	for verifRunPending() {
	}
	verifAssert(q != nil && !q.(*verifPoll).closed && q.(*verifPoll).running, "C18/phase2/pick-returned-dead-poller")
	verifMgrCheck(m, b, "C18/phase2")
	verifReach("end")
}

// Balancing mode switched to random and back to round-robin: afterwards consecutive Picks
// visit every poller of the pool (the mode the user configured last is the one in force).
//
//verif:bounds pool of s in [2,3] loops; round-robin -> random -> round-robin; s Picks after the last switch
//verif:param 2 3
//verif:loop 20
//verif:replay interp
func verifHarness_C18_lbswitch(n int) {
	verifMgrN = 0
	m := newManager(n)
	p := m.Pick()
	for verifRunPending() {
	}
	verifAssert(p != nil, "C18/phase1/pick-returned-closed-poller")
	m.SetLoadBalance(Random)
	q := m.Pick()
	verifAssert(q != nil && !q.(*verifPoll).closed && q.(*verifPoll).running, "C18/phase2/pick-returned-dead-poller")
	m.SetLoadBalance(RoundRobin)
	seen := make([]bool, 12)
	for i := 0; i < n; i++ {
		r := m.Pick()
		verifAssert(r != nil && !r.(*verifPoll).closed && r.(*verifPoll).running, "C18/phase3/pick-returned-dead-poller")
		seen[r.(*verifPoll).id] = true
	}
	verifMgrCheck(m, n, "C18/phase3")
	for i := 0; i < len(m.polls); i++ {
		verifAssert(seen[m.polls[i].(*verifPoll).id], "C18/phase3/round-robin-skipped-a-poller")
	}
	verifReach("end")
}
