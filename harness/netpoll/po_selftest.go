//go:build verif

package netpoll

import "sync/atomic"

// Engine self-test for the partial-order mode (not a property of netpoll): a CAS lock
// protects a critical section; the buggy twin uses a load-then-store "lock".

type verifT00 struct {
	lk, in, done int32
}

//verif:po
func verifHarness_T00_caslock() {
	s := &verifT00{}
	body := func() {
		if atomic.CompareAndSwapInt32(&s.lk, 0, 1) {
			v := atomic.AddInt32(&s.in, 1)
			verifAssert(v == 1, "T00/mutex")
			atomic.AddInt32(&s.in, -1)
			atomic.StoreInt32(&s.lk, 0)
			atomic.AddInt32(&s.done, 1)
		}
		verifReach("end")
	}
	verifThread("a", body)
	verifThread("b", body)
	verifThread("c", body)
	verifFinal("q", func() {
		verifAssert(atomic.LoadInt32(&s.in) == 0, "T00/final-in")
		verifAssert(atomic.LoadInt32(&s.done) >= 1, "T00/someone-entered")
	})
}

//verif:po
func verifHarness_T01_brokenlock() {
	s := &verifT00{}
	body := func() {
		if atomic.LoadInt32(&s.lk) == 0 {
			atomic.StoreInt32(&s.lk, 1)
			v := atomic.AddInt32(&s.in, 1)
			verifAssert(v == 1, "T01/mutex")
			atomic.AddInt32(&s.in, -1)
			atomic.StoreInt32(&s.lk, 0)
		}
		verifReach("end")
	}
	verifThread("a", body)
	verifThread("b", body)
}
