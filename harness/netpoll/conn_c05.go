//go:build verif

package netpoll

import (
	"context"
	"sync/atomic"
)

// Request handler used by the connection harnesses: serial-execution monitor, then one of:
// consume everything, consume some, close the connection, panic.
func verifHandlerFull(ctx context.Context, conn Connection) error {
	n := atomic.AddInt32(&verifK.inHandler, 1)
	verifAssert(n == 1, "C06/two-handler-invocations-at-once")
	atomic.AddInt32(&verifK.handlerRuns, 1)
	switch verifPick("handler.choice", 0, 3) {
	case 0:
		l := conn.Reader().Len()
		conn.Reader().Skip(l)
	case 1:
		l := conn.Reader().Len()
		k := verifNondetInt("handler.k")
		verifAssume(k >= 1)
		verifAssume(k <= l)
		conn.Reader().Skip(k)
	case 2:
		conn.Close()
	case 3:
		atomic.AddInt32(&verifK.inHandler, -1)
		verifPanicOK()
		panic("handler panic")
	}
	atomic.AddInt32(&verifK.inHandler, -1)
	return nil
}

// the same without the panic choice
func verifHandlerNoPanic(ctx context.Context, conn Connection) error {
	n := atomic.AddInt32(&verifK.inHandler, 1)
	verifAssert(n == 1, "C06/two-handler-invocations-at-once")
	atomic.AddInt32(&verifK.handlerRuns, 1)
	switch verifPick("handler.choice", 0, 2) {
	case 0:
		l := conn.Reader().Len()
		conn.Reader().Skip(l)
	case 1:
		l := conn.Reader().Len()
		k := verifNondetInt("handler.k")
		verifAssume(k >= 1)
		verifAssume(k <= l)
		conn.Reader().Skip(k)
	case 2:
		conn.Close()
	}
	atomic.AddInt32(&verifK.inHandler, -1)
	return nil
}

func verifTeardownFinal(c *connection, detached bool) func() {
	return func() {
		closedBy := atomic.LoadInt32(&c.keychain[closing])
		if closedBy != 0 {
			verifAssert(atomic.LoadInt32(&verifK.cb[0]) == 1, "C05/close-callback-not-run-exactly-once")
			if !detached {
				verifAssert(atomic.LoadInt32(&verifK.fdClose) == 1, "C05/descriptor-not-closed-exactly-once")
			} else {
				verifAssert(atomic.LoadInt32(&verifK.fdClose) == 0, "C05/detached-descriptor-closed")
			}
			verifAssert(atomic.LoadInt32(&verifK.ctlDel) == 1, "C05/poller-registration-not-released-once")
		}
		verifAssert(atomic.LoadInt32(&verifK.inHandler) == 0, "C05/handler-still-running-at-quiescence")
	}
}

// IsActive never returns true after it has returned false.
func verifActiveObserver(c *connection) func() {
	return func() {
		a := c.IsActive()
		b := c.IsActive()
		verifAssert(a || !b, "C05/IsActive-true-after-false")
	}
}

// handler with two choices only (quick tier): consume everything or Close
func verifHandlerSmall(ctx context.Context, conn Connection) error {
	n := atomic.AddInt32(&verifK.inHandler, 1)
	verifAssert(n == 1, "C06/two-handler-invocations-at-once")
	atomic.AddInt32(&verifK.handlerRuns, 1)
	// the documented contract "read all input or Close": once the handler has closed the
	// connection it is not offered the remaining input again (it would be for ever, and the
	// close callbacks would never run)
	verifAssert(atomic.LoadInt32(&verifK.handlerClosed) == 0, "C05/handler-started-again-after-it-closed-the-connection")
	if verifNondetBool("handler.close") {
		conn.Close()
		atomic.StoreInt32(&verifK.handlerClosed, 1)
	} else {
		l := conn.Reader().Len()
		conn.Reader().Skip(l)
	}
	atomic.AddInt32(&verifK.inHandler, -1)
	return nil
}

// consume everything or panic
func verifHandlerSmallPanic(ctx context.Context, conn Connection) error {
	n := atomic.AddInt32(&verifK.inHandler, 1)
	verifAssert(n == 1, "C06/two-handler-invocations-at-once")
	atomic.AddInt32(&verifK.handlerRuns, 1)
	if verifNondetBool("handler.panic") {
		atomic.AddInt32(&verifK.inHandler, -1)
		verifPanicOK()
		panic("handler panic")
	}
	l := conn.Reader().Len()
	conn.Reader().Skip(l)
	atomic.AddInt32(&verifK.inHandler, -1)
	return nil
}

// Teardown. Threads: the poller (one delivery of symbolic size through the real
// Inputs/InputAck under the slot token, then hang-up through the real appendHup/onhups), the
// hang-up goroutine, the handler task(s) spawned through runner.RunTask, one or two user
// Close calls. Configurations (quick 0-2, thorough 3-4):
//  0: OnRequest, handler {consume all, Close}, 1 closer
//  1: OnRequest, handler {consume all, panic}, 1 closer
//  2: no OnRequest, 2 closers
//  3: OnRequest, handler {consume all, consume some, Close}, 2 closers + IsActive observer
//  4: OnRequest, handler {consume all, consume some, Close, panic}, 2 closers
//
//verif:po
//verif:bounds configurations 0-1: 1 delivery (size symbolic in [1,4]) + peer hang-up, 1 user Close, 1 close callback, <= 3 task instances, state revisits <= 2 (enough for one close callback: the witness of a quiescent execution is checked); buffers summarised on length; poller slot recycling stubbed (C10)
//verif:param 0 1
//verif:loop 40
//verif:poloop 2
//verif:potimeout 600
//verif:also C19
func verifHarness_C05_teardown(cfg int) { verifTeardown(cfg) }

//verif:po
//verif:bounds configuration 2: no request handler, 2 concurrent user Close + peer hang-up, 2 close callbacks (reverse order), state revisits <= 3
//verif:param 2 2
//verif:loop 40
//verif:poloop 3
//verif:potimeout 600
//verif:also C19
func verifHarness_C05_teardowncb(cfg int) { verifTeardown(cfg) }

//verif:po
//verif:tier thorough
//verif:bounds as teardown with 2 closers and the full handler menu
//verif:param 3 4
//verif:loop 40
//verif:poloop 3
//verif:potimeout 1200
func verifHarness_C05_teardownfull(cfg int) { verifTeardown(cfg) }

func verifTeardown(cfg int) {
	var c *connection
	closers := 1
	switch cfg {
	case 0:
		c = verifNewConn(verifConnCfg{onRequest: true, closeCBs: 1, handler: verifHandlerSmall})
	case 1:
		c = verifNewConn(verifConnCfg{onRequest: true, closeCBs: 1, handler: verifHandlerSmallPanic})
	case 2:
		c = verifNewConn(verifConnCfg{closeCBs: 2})
		closers = 2
	case 3:
		c = verifNewConn(verifConnCfg{onRequest: true, closeCBs: 2, handler: verifHandlerNoPanic})
		closers = 2
	case 4:
		c = verifNewConn(verifConnCfg{onRequest: true, closeCBs: 2, handler: verifHandlerFull})
		closers = 2
	}
	op := c.operator
	p := op.poll.(*defaultPoll)
	vs := make([][]byte, 1)
	verifThread("poller", func() {
		// one iteration of defaultPoll.handler for this descriptor: take the slot token, deliver
		// n bytes, then report the hang-up through the real appendHup/onhups
		if op.do() {
			n := verifNondetInt("delivery")
			verifAssume(n >= 1)
			verifAssume(n <= 4)
			op.Inputs(vs)
			op.InputAck(n)
			p.appendHup(op)
		}
		p.onhups()
		verifReach("poller-done")
	})
	verifThread("closer1", func() { c.Close(); verifReach("close1") })
	if closers == 2 {
		verifThread("closer2", func() { c.Close(); verifReach("close2") })
	}
	if cfg == 3 {
		verifThread("observer", verifActiveObserver(c))
	}
	verifFinal("quiescent", verifTeardownFinal(c, false))
}

// Detach (sequential): the caller takes the descriptor over, so netpoll must not close it —
// whether the connection is still active or the poller has already reported the peer's hang-up
// and the teardown is waiting for the user (connection without callbacks). Everything else is
// torn down exactly once.
//
//verif:bounds connection without OnRequest/OnConnect, 1 close callback; Detach on an active connection / after a delivered peer hang-up / twice
//verif:param 0 2
//verif:loop 40
//verif:replay interp
func verifHarness_C05_detach(mode int) {
	c := verifNewConn(verifConnCfg{closeCBs: 1})
	op := c.operator
	p := op.poll.(*defaultPoll)
	if mode == 1 {
		if op.do() {
			p.appendHup(op)
		}
		p.onhups()
		for verifRunPending() {
		}
		verifAssert(!c.IsActive(), "C05/active-after-hang-up")
	}
	err := c.Detach()
	verifAssert(err == nil, "C05/detach-error")
	if mode == 2 {
		c.Detach()
	}
	for verifRunPending() {
	}
	verifAssert(!c.IsActive(), "C05/active-after-detach")
	verifAssert(atomic.LoadInt32(&verifK.fdClose) == 0, "C05/descriptor-closed-although-detached")
	verifAssert(atomic.LoadInt32(&verifK.cb[0]) == 1, "C05/close-callback-not-run-exactly-once")
	verifAssert(atomic.LoadInt32(&verifK.ctlDel) == 1, "C05/poller-registration-not-released-exactly-once")
	verifReach("end")
}
