//go:build verif

package netpoll

import (
	"context"
	"errors"
	"time"
)

// C12 — a closed connection answers with errors, not panics or hangs (DESIGN 5.14).
// Sequential: the real close path (onClose / onHup / finalizer / closeBuffer /
// LinkBuffer.Close) is run to completion on real buffers, then one method is called.

//verif:stub errors.Is verifErrorsIs12

func verifErrorsIs12(err, target error) bool {
	for i := 0; i < 4; i++ {
		if err == nil {
			return false
		}
		if err == target {
			return true
		}
		if x, ok := err.(interface{ Is(error) bool }); ok && x.Is(target) {
			return true
		}
		u, ok := err.(interface{ Unwrap() error })
		if !ok {
			return false
		}
		err = u.Unwrap()
	}
	return false
}

const (
	c12User = iota
	c12Peer
	c12PeerThenUser
	c12Detach
	c12Modes
)

const (
	m12Next = iota
	m12Peek
	m12Skip
	m12ReadString
	m12ReadBinary
	m12ReadByte
	m12Slice
	m12Until
	m12Read
	m12Release
	m12Len
	m12Malloc
	m12MallocLen
	m12MallocAck
	m12Flush
	m12WriteBinary
	m12WriteString
	m12WriteByte
	m12WriteDirect
	m12Append
	m12Write
	m12Close
	m12IsActive
	m12Methods
)

// handler for the "with callbacks" variants: consumes k of the buffered bytes, then closes
// (the documented contract: read everything or Close)
func verifHandler12(ctx context.Context, conn Connection) error {
	l := conn.Reader().Len()
	k := verifNondetInt("handler.k")
	verifAssume(k >= 0)
	verifAssume(k <= l)
	if k > 0 {
		conn.Reader().Skip(k)
	}
	conn.Close()
	return nil
}

func verifIsClosedErr(err error) bool { return err != nil && errors.Is(err, ErrConnClosed) }

// returns (is a reader call that needs n bytes, n)
func verifCall12(c *connection, m int, buffered int, peerOnly bool, label string) {
	n := verifNondetInt("arg.n")
	verifAssume(n >= 1)
	verifAssume(n <= 64)
	needMore := n > buffered
	var err error
	reader := false
	writer := false
	switch m {
	case m12Next:
		_, err = c.Next(n)
		reader = true
	case m12Peek:
		_, err = c.Peek(n)
		reader = true
	case m12Skip:
		err = c.Skip(n)
		reader = true
	case m12ReadString:
		_, err = c.ReadString(n)
		reader = true
	case m12ReadBinary:
		_, err = c.ReadBinary(n)
		reader = true
	case m12ReadByte:
		_, err = c.ReadByte()
		needMore = buffered < 1
		reader = true
	case m12Slice:
		_, err = c.Slice(n)
		reader = true
	case m12Until:
		verifAssume(buffered == 0)
		_, err = c.Until('\n')
		needMore = true
		reader = true
	case m12Read:
		p := verifNondetBytes("read.dst", n)
		_, err = c.Read(p)
		needMore = buffered < 1
		reader = true
	case m12Release:
		err = c.Release()
		verifAssert(err == nil, label+"/release-error")
	case m12Len:
		verifAssert(c.Len() == buffered, label+"/len")
	case m12Malloc:
		_, err = c.Malloc(n)
		writer = true
	case m12MallocLen:
		_ = c.MallocLen()
	case m12MallocAck:
		err = c.MallocAck(0)
		writer = true
	case m12Flush:
		err = c.Flush()
		writer = true
	case m12WriteBinary:
		_, err = c.WriteBinary(verifNondetBytes("wb", n))
		writer = true
	case m12WriteString:
		_, err = c.WriteString("hello")
		writer = true
	case m12WriteByte:
		err = c.WriteByte(1)
		writer = true
	case m12WriteDirect:
		err = c.WriteDirect(verifNondetBytes("wd", n), 0)
		writer = true
	case m12Append:
		err = c.Append(NewLinkBuffer())
		writer = true
	case m12Write:
		_, err = c.Write(verifNondetBytes("w", n))
		writer = true
	case m12Close:
		err = c.Close()
		verifAssert(err == nil, label+"/close-not-idempotent")
	case m12IsActive:
		verifAssert(!c.IsActive(), label+"/active-after-close")
	}
	if writer {
		verifAssert(verifIsClosedErr(err), label+"/writer-no-ErrConnClosed")
	}
	if reader {
		if needMore {
			verifAssert(verifIsClosedErr(err), label+"/reader-no-ErrConnClosed")
			if peerOnly {
				verifAssert(err != nil && errors.Is(err, ErrEOF), label+"/reader-no-ErrEOF-after-peer-close")
			}
		} else {
			verifAssert(err == nil, label+"/buffered-bytes-not-readable")
		}
	}
}

// param = ((mode*2 + callbacks)*2 + pendingOutput) * methods + method
//
//verif:bounds every method x {user, peer, peer then user, detach} x {with, without OnRequest} x {output pending or not}; input 0..64 bytes symbolic; one call, then Close, then the call again; real buffer code; no timeouts set
//verif:param 0 367
//verif:loop 40
//verif:noblock
//verif:replay interp
func verifHarness_C12_closed(param int) {
	m := param % m12Methods
	rest := param / m12Methods
	pendingOut := rest%2 == 1
	rest /= 2
	withCB := rest%2 == 1
	mode := rest / 2
	var c *connection
	if withCB {
		c = verifNewConn(verifConnCfg{onRequest: true, closeCBs: 1, handler: verifHandler12})
	} else {
		c = verifNewConn(verifConnCfg{closeCBs: 1})
	}
	op := c.operator
	pl := op.poll.(*defaultPoll)
	// input: one delivery of `in` bytes through the real book/bookAck
	in := verifNondetInt("input")
	verifAssume(in >= 0)
	verifAssume(in <= 64)
	if in > 0 {
		vs := make([][]byte, 1)
		c.inputs(vs)
		c.inputAck(in)
	}
	if pendingOut {
		c.Malloc(8)
	}
	// run the handler task if one was started (it consumes k bytes and closes)
	for verifRunPending() {
	}
	switch mode {
	case c12User:
		c.Close()
	case c12Peer:
		// the poller reports the hang-up the way defaultPoll.handler does (slot token, detach,
		// hang-up goroutine); if the handler closed the connection first the slot is gone
		if op.do() {
			pl.appendHup(op)
		}
		pl.onhups()
		for verifRunPending() {
		}
	case c12PeerThenUser:
		if op.do() {
			pl.appendHup(op)
		}
		pl.onhups()
		for verifRunPending() {
		}
		c.Close()
	case c12Detach:
		c.Detach()
	}
	for verifRunPending() {
	}
	verifReach("closed")
	buffered := c.inputBuffer.Len()
	// only the peer closed, and nobody (handler or user) closed locally
	peerOnly := c.isCloseBy(poller)
	verifCall12(c, m, buffered, peerOnly, "C12/first-call")
	// Close is idempotent in any order, and the same call still answers properly afterwards
	err := c.Close()
	verifAssert(err == nil, "C12/close-after-call-error")
	buffered = c.inputBuffer.Len()
	verifCall12(c, m, buffered, false, "C12/after-close")
	verifReach("end")
}

// The same question on a connection that has a read timeout and whose read timer already
// exists from an earlier timed read (stopped: not armed, channel drained). A reader call that
// needs more than is buffered must still answer at once after a close — the epilogue of the
// timed wait ("stop the timer, else drain its channel") must not wait for a tick that will
// never come.
//
//verif:bounds 9 reader calls x {user close, peer close}; read timeout set, its timer exists and is stopped; input 0..8 bytes; no timer expiry
//verif:param 0 17
//verif:loop 40
//verif:noblock
//verif:replay interp
func verifHarness_C12_closedtimed(param int) {
	m := param % 9 // m12Next .. m12Read
	mode := param / 9
	verifTimerN = 0
	verifTimers[0], verifTimers[1] = nil, nil
	c := verifNewConn(verifConnCfg{closeCBs: 1})
	op := c.operator
	pl := op.poll.(*defaultPoll)
	c.readTimeout = time.Second
	c.readTimer = verifMakeTimer() // not armed, empty channel
	in := verifNondetInt("input")
	verifAssume(in >= 0)
	verifAssume(in <= 8)
	if in > 0 {
		vs := make([][]byte, 1)
		c.inputs(vs)
		c.inputAck(in)
	}
	if mode == 0 {
		c.Close()
	} else {
		if op.do() {
			pl.appendHup(op)
		}
		pl.onhups()
		for verifRunPending() {
		}
	}
	for verifRunPending() {
	}
	verifReach("closed")
	buffered := c.inputBuffer.Len()
	peerOnly := c.isCloseBy(poller)
	verifCall12(c, m, buffered, peerOnly, "C12/timed/first-call")
	verifCall12(c, m, c.inputBuffer.Len(), peerOnly, "C12/timed/second-call")
	verifReach("end")
}
