//go:build verif

package netpoll

import (
	"context"
	"sync/atomic"
)

// C06 — request handling is serial and never strands input (DESIGN 5.8).

// handler that consumes 1..Len bytes per call (so a stranded byte is always a scheduling
// loss, never the handler's choice) and records that it was offered the data
func verifHandlerConsume(ctx context.Context, conn Connection) error {
	n := atomic.AddInt32(&verifK.inHandler, 1)
	verifAssert(n == 1, "C06/two-handler-invocations-at-once")
	atomic.AddInt32(&verifK.handlerRuns, 1)
	l := conn.Reader().Len()
	if verifNondetBool("handler.all") {
		conn.Reader().Skip(l)
	} else {
		k := verifNondetInt("handler.k")
		verifAssume(k >= 1)
		verifAssume(k <= l)
		conn.Reader().Skip(k)
	}
	atomic.AddInt32(&verifK.inHandler, -1)
	return nil
}

// handler that always consumes everything
func verifHandlerAll(ctx context.Context, conn Connection) error {
	n := atomic.AddInt32(&verifK.inHandler, 1)
	verifAssert(n == 1, "C06/two-handler-invocations-at-once")
	atomic.AddInt32(&verifK.handlerRuns, 1)
	l := conn.Reader().Len()
	conn.Reader().Skip(l)
	atomic.AddInt32(&verifK.inHandler, -1)
	return nil
}

func verifDeliver(op *FDOperator, vs [][]byte, name string) {
	if op.do() {
		n := verifNondetInt(name)
		verifAssume(n >= 1)
		verifAssume(n <= 4)
		op.Inputs(vs)
		op.InputAck(n)
		op.done()
	}
}

func verifStrandedFinal(c *connection) func() {
	return func() {
		closedBy := atomic.LoadInt32(&c.keychain[closing])
		l := c.inputBuffer.Len()
		// unread input, a handler, not closed by the user: an invocation must be in progress
		// (impossible at quiescence) — so this state must not exist
		verifAssert(l == 0 || closedBy == 1, "C06/input-stranded-with-no-handler-invocation")
		verifAssert(atomic.LoadInt32(&verifK.inHandler) == 0, "C06/handler-still-running-at-quiescence")
	}
}

// Scenarios:
//  0: server-style connection with OnRequest; the poller delivers 2 chunks while the handler
//     task runs and returns (hand-off "unlock, re-check length / publish length, try lock")
//  1: client-style connection without handler; SetOnRequest races with a delivery
//  2: scenario 0 followed by a peer hang-up: buffered input is offered before close callbacks
//  3: OnConnect still running when the first data arrives
//  5: the request handler is installed by OnConnect itself (SetOnRequest from inside the
//     callback) while the first data arrives: the data must still be offered
//  4: client-style connection without handler: a delivery and then the peer's hang-up, with
//     SetOnRequest at any moment (before, between, after): the buffered input is offered
//
//verif:po
//verif:bounds scenarios 0-5: 2 deliveries (sizes symbolic in [1,4]) / SetOnRequest racing a delivery / delivery + hang-up / OnConnect running / handler-less connection with delivery + hang-up + SetOnRequest / handler installed by OnConnect; handler consumes any 1..Len per call, <= 3 task instances, state revisits <= 3; buffers summarised on length
//verif:param 0 5
//verif:loop 40
//verif:poloop 3
//verif:potimeout 900
//verif:also C19
func verifHarness_C06_handoff(sc int) {
	var c *connection
	switch sc {
	case 0:
		c = verifNewConn(verifConnCfg{onRequest: true, closeCBs: 1, handler: verifHandlerConsume})
	case 1, 4:
		c = verifNewConn(verifConnCfg{closeCBs: 1})
	case 2:
		// (a handler that may consume only part of the input per call: after the peer's close it
		// must keep being offered the rest)
		c = verifNewConn(verifConnCfg{onRequest: true, closeCBs: 1, handler: verifHandlerConsume})
	case 3:
		c = verifNewConnOnConnect(verifHandlerAll)
	case 5:
		c = verifNewConnOnConnectSets(verifHandlerAll)
	}
	op := c.operator
	p := op.poll.(*defaultPoll)
	vs := make([][]byte, 1)
	switch sc {
	case 0:
		verifThread("poller", func() {
			verifDeliver(op, vs, "chunk1")
			verifDeliver(op, vs, "chunk2")
			verifReach("delivered")
		})
	case 1:
		verifThread("poller", func() {
			verifDeliver(op, vs, "chunk1")
			verifReach("delivered")
		})
		verifThread("user", func() {
			c.SetOnRequest(verifHandlerConsume)
			verifReach("handler-set")
		})
	case 2:
		verifThread("poller", func() {
			verifDeliver(op, vs, "chunk1")
			if op.do() {
				n := verifNondetInt("chunk2")
				verifAssume(n >= 1)
				verifAssume(n <= 4)
				op.Inputs(vs)
				op.InputAck(n)
				atomic.StoreInt32(&verifK.prepared, 1) // "everything was delivered before the hang-up"
				p.appendHup(op)
			}
			p.onhups()
			verifReach("delivered")
		})
	case 4:
		verifThread("poller", func() {
			if op.do() {
				n := verifNondetInt("chunk1")
				verifAssume(n >= 1)
				verifAssume(n <= 4)
				op.Inputs(vs)
				op.InputAck(n)
				p.appendHup(op)
			}
			p.onhups()
			verifReach("delivered")
		})
		verifThread("user", func() {
			c.SetOnRequest(verifHandlerAll)
			verifReach("handler-set")
		})
	case 5:
		verifThread("accept", func() {
			c.onConnect()
			verifReach("accepted")
		})
		verifThread("poller", func() {
			verifDeliver(op, vs, "chunk1")
			verifReach("delivered")
		})
	case 3:
		verifThread("accept", func() {
			c.onConnect()
			verifReach("accepted")
		})
		verifThread("poller", func() {
			verifDeliver(op, vs, "chunk1")
			verifReach("delivered")
		})
	}
	verifFinal("quiescent", verifStrandedFinal(c))
}

// a connection whose OnConnect callback installs the request handler itself
func verifNewConnOnConnectSets(h func(ctx context.Context, c Connection) error) *connection {
	verifK = &verifKMon{}
	runner_RunTask_set()
	pollmanager = newManager(1)
	nfd := verifNetFD()
	c := &connection{}
	opts := &options{}
	opts.onConnect = func(ctx context.Context, conn Connection) context.Context {
		atomic.StoreInt32(&verifK.inConnect, 1)
		conn.SetOnRequest(h)
		atomic.StoreInt32(&verifK.inConnect, 0)
		return ctx
	}
	err := c.init(nfd, opts)
	verifAssume(err == nil)
	c.AddCloseCallback(verifCloseCB(0))
	verifK.cb[1] = -1
	return c
}
