//go:build verif

package netpoll

import (
	"math"
	"syscall"
)

// C04 — a connection delivers the sender's byte stream intact (DESIGN 5.5), the obligations
// that are sequential: (b) iovec assembly, (c) the send path through Flush and the poller's
// write rounds over the real output LinkBuffer against a kernel that takes arbitrary prefixes.

// (b) iovecs: the iovec array describes exactly the first min(sum, MaxInt32) bytes of bs, in
// order, skipping empty chunks, never indexing past ivs.
//
//verif:bounds k in [1,4] chunks, each length symbolic in [0, 2^31+16] (so totals around 2^31), ivs has k entries
//verif:param 1 4
//verif:loop 12
func verifHarness_C04_iovecs(k int) {
	bs := make([][]byte, k)
	lens := make([]int, k)
	for i := 0; i < k; i++ {
		n := verifNondetInt("len")
		verifAssume(n >= 0)
		verifAssume(n <= math.MaxInt32+16)
		lens[i] = n
		bs[i] = verifNondetBytes("chunk", n)
	}
	ivs := make([]syscall.Iovec, k)
	got := iovecs(bs, ivs)
	verifAssert(got >= 0 && got <= k, "C04/iovecs-count-out-of-range")
	// walk the non-empty chunks in order
	j := 0
	total := 0
	done := false
	for i := 0; i < k; i++ {
		if lens[i] == 0 || done {
			continue
		}
		verifAssert(j < got, "C04/iovecs-missing-chunk")
		if j >= got {
			break
		}
		verifAssert(ivs[j].Base == &bs[i][0], "C04/iovecs-wrong-base")
		want := lens[i]
		if total+lens[i] >= math.MaxInt32 {
			want = math.MaxInt32 - total
			done = true
		}
		verifAssert(int(ivs[j].Len) == want, "C04/iovecs-wrong-length")
		total += want
		j++
	}
	verifAssert(j == got, "C04/iovecs-extra-entry")
	verifReach("end")
}

// resetIovecs clears exactly what was used
//
//verif:bounds k in [1,3]
//verif:param 1 3
//verif:loop 12
func verifHarness_C04_reset(k int) {
	bs := make([][]byte, k)
	for i := 0; i < k; i++ {
		bs[i] = verifNondetBytes("chunk", 4)
	}
	ivs := make([]syscall.Iovec, k)
	n := iovecs(bs, ivs)
	resetIovecs(bs, ivs[:n])
	for i := 0; i < k; i++ {
		verifAssert(bs[i] == nil, "C04/vector-not-cleared")
		verifAssert(ivs[i].Base == nil, "C04/iovec-not-cleared")
	}
	verifReach("end")
}

// (c) send path, sequentially composed: writer calls, Flush, kernel takes an arbitrary prefix
// (or EAGAIN); when Flush registers for writability the poller's rounds (outputs ->
// iosend -> outputAck -> rw2r) run until the buffer is empty. Afterwards the kernel stream is
// exactly the flushed stream.

//verif:stub github.com/cloudwego/netpoll.sendmsg verifC04Sendmsg
//verif:stub github.com/cloudwego/netpoll.EpollCtl verifC04EpollCtl

type verifKern04 struct {
	got    int // rope of accepted bytes
	total  int
	calls  int
	conn   *connection
	rounds int
}

var verifK04 *verifKern04

func verifC04Sendmsg(fd int, bs [][]byte, ivs []syscall.Iovec, zerocopy bool) (int, error) {
	k := verifK04
	k.calls++
	verifAssume(k.calls <= 4) // bound: kernel calls per harness
	total := 0
	for i := range bs {
		total += len(bs[i])
	}
	if total == 0 {
		return 0, nil
	}
	if verifStubBool("send.eagain") {
		return -1, syscall.EAGAIN
	}
	n := verifStubInt("send.n")
	verifAssume(n >= 1)
	verifAssume(n <= total)
	// record the first n bytes across the vectors
	left := n
	for i := range bs {
		t := len(bs[i])
		t = verifIteInt(left < t, left, t)
		verifRopeAppend(k.got, bs[i][:t])
		left -= t
	}
	k.total += n
	return n, nil
}

func verifC04EpollCtl(epfd, op, fd int, event *epollevent) error {
	k := verifK04
	if op == 3 && event.events&0x4 != 0 && k.conn != nil {
		// registered for writability: the poller's write rounds run until the buffer is empty
		c := k.conn
		o := c.operator
		for r := 0; r < 3; r++ {
			if c.outputBuffer.IsEmpty() {
				break
			}
			bs, _ := o.Outputs(c.outputBarrier.bs)
			if len(bs) > 0 {
				n, _ := iosend(o.FD, bs, c.outputBarrier.ivs, false)
				o.OutputAck(n)
			}
		}
		verifAssume(c.outputBuffer.IsEmpty())
	}
	return nil
}

//verif:bounds 2 writer operations (Malloc / WriteBinary / WriteString / WriteByte, sizes <= 8193) then Flush, then one more write and Flush; <= 4 kernel calls each taking an arbitrary prefix or EAGAIN; <= 3 poller rounds per registration
//verif:param 0 15
//verif:loop 40
//verif:replay interp
func verifHarness_C04_sendpath(param int) {
	op1 := param / 4
	op2 := param % 4
	verifK = &verifKMon{}
	runner_RunTask_set()
	pollmanager = newManager(1)
	c := verifNewConnOn(7, nil)
	verifK04 = &verifKern04{got: verifRopeNew(), conn: c}
	ref := verifRopeNew()
	flushed := 0
	write := func(kind int) {
		switch kind {
		case 0:
			n := verifNondetInt("malloc.n")
			verifAssume(n >= 1)
			verifAssume(n <= 8193)
			buf, err := c.Malloc(n)
			verifAssert(err == nil && len(buf) == n, "C04/malloc")
			verifFill(buf)
			verifRopeAppend(ref, buf)
			flushed += n
		case 1:
			n := verifNondetInt("wb.n")
			verifAssume(n >= 1)
			verifAssume(n <= 8193)
			p := verifNondetBytes("wb", n)
			_, err := c.WriteBinary(p)
			verifAssert(err == nil, "C04/writebinary")
			verifRopeAppend(ref, p)
			flushed += n
		case 2:
			p := verifNondetBytes("ws", 5)
			_, err := c.WriteString(verifBytesStr(p))
			verifAssert(err == nil, "C04/writestring")
			verifRopeAppend(ref, p)
			flushed += 5
		case 3:
			b := verifNondetByte("wbyte")
			err := c.WriteByte(b)
			verifAssert(err == nil, "C04/writebyte")
			verifRopeAppendByte(ref, b)
			flushed++
		}
	}
	write(op1)
	write(op2)
	err := c.Flush()
	verifAssert(err == nil, "C04/flush-error-without-kernel-error")
	verifAssert(verifK04.total == flushed, "C04/kernel-byte-count-differs-from-flushed")
	verifAssert(verifRopePrefix(ref, verifK04.got, flushed), "C04/kernel-stream-differs-from-flushed-stream")
	verifReach("flush1")
	write(0)
	err = c.Flush()
	verifAssert(err == nil, "C04/flush-error-without-kernel-error")
	verifAssert(verifK04.total == flushed, "C04/kernel-byte-count-differs-from-flushed")
	verifAssert(verifRopePrefix(ref, verifK04.got, flushed), "C04/kernel-stream-differs-from-flushed-stream")
	verifReach("end")
}

// (a') the two ends of the stream inside the buffers: what the sender's vectors (GetBytes) and
// the receiver's reads (Next, Slice, Read, ReadBinary) hand out over multi-node buffers is the
// written stream, in order. These are the C01 model runs over the two- and three-node shapes,
// reported under this property.
//
//verif:bounds shapes {two data nodes, three data nodes} x {Next, ReadBinary, Slice, Read, GetBytes(1..3 vectors)} + drain; sizes symbolic per size class
//verif:relabel C01 C04
//verif:replay interp
//verif:param 0 9
//verif:loop 10
func verifHarness_C04_stream(param int) {
	shapes := [2]int{5, 21}
	ops := [5]int{verifOpNext, verifOpReadBinary, verifOpSlice, verifOpReadCopy, verifOpGetBytes}
	v := verifShape(shapes[param/5])
	verifReach("shape")
	v.step(ops[param%5])
	verifReach("op1")
	v.drain()
	verifReach("end")
}

// Receive path through the real connection.inputs / inputAck (book / bookAck on the real input
// buffer, adaptive bookSize / maxSize): three poller rounds whose kernel answers are symbolic —
// n bytes (1..len of the booked space), nothing (EAGAIN / EINTR: inputAck(0)) or an error
// (inputAck(-1)) — in any order. The bytes the kernel ghost stored are the reference; after the
// rounds the reader takes everything that is buffered: same length, same bytes, same order.
// maxSize may have grown beyond bookSize (a lazy reader let earlier traffic pile up).
//
//verif:bounds 3 poller rounds, each: kernel stores 1..len(booked) bytes / nothing / error; bookSize, maxSize symbolic in [1, 64K] / [bookSize, 8M]; connection without callbacks (data stays buffered); one final Next of everything
//verif:loop 40
//verif:replay interp
func verifHarness_C04_recvpath() {
	c := verifNewConn(verifConnCfg{closeCBs: 1})
	bs := verifNondetInt("bookSize")
	verifAssume(bs >= 1)
	verifAssume(bs <= 64*1024)
	ms := verifNondetInt("maxSize")
	verifAssume(ms >= bs)
	verifAssume(ms <= 8*1024*1024)
	c.bookSize, c.maxSize = bs, ms
	ref := verifRopeNew()
	total := 0
	vs := make([][]byte, 1)
	for round := 0; round < 3; round++ {
		rs := c.inputs(vs)
		verifAssert(len(rs) == 1 && len(rs[0]) > 0, "C04/recv/no-space-booked")
		switch verifPick("kernel.answer", 0, 2) {
		case 0:
			n := verifNondetInt("readv.n")
			verifAssume(n >= 1)
			verifAssume(n <= len(rs[0]))
			verifFill(rs[0][:n])
			verifRopeAppend(ref, rs[0][:n])
			total += n
			c.inputAck(n)
		case 1:
			c.inputAck(0)
		case 2:
			c.inputAck(-1)
		}
		verifAssert(c.inputBuffer.Len() == total, "C04/recv/len-differs-from-bytes-received")
	}
	if total > 0 {
		p, err := c.Reader().Next(total)
		verifAssert(err == nil && len(p) == total, "C04/recv/next-failed")
		verifAssert(verifRopeMatch(ref, 0, p), "C04/recv/bytes-differ-from-what-the-kernel-stored")
	}
	verifAssert(c.inputBuffer.Len() == 0, "C04/recv/len-after-drain")
	verifReach("end")
}
