//go:build verif

package mux

import (
	"context"
	"sync/atomic"

	"github.com/cloudwego/netpoll"
	"github.com/cloudwego/netpoll/internal/runner"
)

// C17 — ShardQueue (DESIGN 5.18). The connection and its writer are recorders; getters are
// harness closures that count their invocations. Monitors are atomic counters, so every
// monitor step is one event of the partial-order encoding.

type verifMon struct {
	inv      [4]int32 // invocations per getter
	appended int32    // Appends not yet followed by a Flush
	flushes  int32
	inWorker int32
	closedQ  int32 // set when Close returned
	addDone  [4]int32
	connOpen int32
}

type verifWriter struct {
	netpoll.Writer
	m *verifMon
}

func (w *verifWriter) Append(b netpoll.Writer) error {
	atomic.AddInt32(&w.m.appended, 1)
	verifInject("append")
	return nil
}

func (w *verifWriter) Flush() error {
	verifInject("flush.begin")
	atomic.StoreInt32(&w.m.appended, 0)
	atomic.AddInt32(&w.m.flushes, 1)
	verifInject("flush.end")
	return nil
}

// Injection (harness C17_inject): at every point where the worker calls out of the queue code
// (IsActive, a getter, Append, Flush) another goroutine may run a complete Add. The injected
// Add is the real code, executed at that point of the worker's progress.
type verifInjector struct {
	q      *ShardQueue
	m      *verifMon
	buf    netpoll.Writer
	added  int
	budget int
	// Close injection (harness C17_closeinject)
	allowClose       bool
	closeBegan       bool
	closeReturned    bool
	addedBeforeClose int
}


type verifYield struct{}

// 0: a spinning caller lets one pending task run (blocked if there is none);
// 1: the spinning caller is a Close nested inside a worker call-out: it is suspended by
//    unwinding out of it (it has only read since its CAS) and its wait is finished by
//    verifCloseWait below.
var verifYieldMode int

// Close begins here (the real code up to its first wait), possibly inside a worker call-out.
func (in *verifInjector) beginClose() {
	in.closeBegan = true
	in.addedBeforeClose = in.added
	defer func() {
		verifYieldMode = 0
		if r := recover(); r != nil {
			if _, ok := r.(verifYield); !ok {
				panic(r)
			}
		}
	}()
	verifYieldMode = 1
	err := in.q.Close()
	verifAssert(err == nil, "C17/close-error")
	// returned without waiting
	in.closeReturned = true
	in.checkClosed()
}

// the rest of Close's wait loop, observed between tasks: it returns as soon as it sees the
// state closed, or the trigger counter at zero
func (in *verifInjector) closeWait() {
	if !in.closeBegan || in.closeReturned {
		return
	}
	if atomic.LoadInt32(&in.q.state) == closed {
		in.closeReturned = true
		in.checkClosed()
		return
	}
	if atomic.LoadInt32(&in.q.trigger) == 0 {
		atomic.StoreInt32(&in.q.state, closed)
		in.closeReturned = true
		in.checkClosed()
	}
}

// what must hold when Close returns
func (in *verifInjector) checkClosed() {
	for k := 0; k < 4; k++ {
		if k < in.addedBeforeClose {
			verifAssert(atomic.LoadInt32(&in.m.inv[k]) == 1, "C17/close-returned-before-every-added-getter-was-invoked")
		}
	}
	// (the property asks for "handled", i.e. invoked and appended; the flush of the last batch
	// may still be in progress when Close sees the trigger counter at zero, so it is not asserted)
}

var verifInj *verifInjector

func verifInject(where string) {
	in := verifInj
	if in == nil {
		return
	}
	if in.allowClose && !in.closeBegan && verifNondetBool("inject.close."+where) {
		in.beginClose()
		return
	}
	if in.budget == 0 || in.added >= 4 {
		return
	}
	if verifNondetBool("inject." + where) {
		in.budget--
		k := in.added
		in.added++
		in.q.Add(verifGetter(in.m, k, in.buf))
	}
}

type verifConn struct {
	netpoll.Connection
	m *verifMon
	w *verifWriter
}

func (c *verifConn) IsActive() bool {
	verifInject("isactive")
	return atomic.LoadInt32(&c.m.connOpen) == 1
}
func (c *verifConn) Writer() netpoll.Writer { return c.w }
func (c *verifConn) Close() error           { atomic.StoreInt32(&c.m.connOpen, 0); return nil }

func verifRunTask(ctx context.Context, f func()) { verifSpawn(f) }

func verifGetter(m *verifMon, k int, buf netpoll.Writer) WriterGetter {
	return func() (netpoll.Writer, bool) {
		verifInject("getter.begin")
		n := atomic.AddInt32(&m.inv[k], 1)
		verifAssert(n == 1, "C17/getter-invoked-twice")
		verifInject("getter.end")
		return buf, false
	}
}

func verifQueue(size int) (*ShardQueue, *verifMon) {
	verifInj = nil
	verifLockInject = false
	runner.RunTask = verifRunTask
	m := &verifMon{connOpen: 1}
	w := &verifWriter{m: m}
	c := &verifConn{m: m, w: w}
	return NewShardQueue(size, c), m
}

