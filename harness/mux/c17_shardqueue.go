//go:build verif

package mux

import (
	"context"
	"sync/atomic"

	"github.com/cloudwego/netpoll"
	"github.com/cloudwego/netpoll/internal/runner"
)

// C17 — ShardQueue (DESIGN 5.18). The connection and its writer are recorders; getters are
// harness closures that count their invocations. Monitors are atomic counters, so every
// monitor step is one event of the partial-order encoding.

type verifMon struct {
	inv      [4]int32 // invocations per getter
	appended int32    // Appends not yet followed by a Flush
	flushes  int32
	inWorker int32
	closedQ  int32 // set when Close returned
	addDone  [4]int32
	connOpen int32
}

type verifWriter struct {
	netpoll.Writer
	m *verifMon
}

func (w *verifWriter) Append(b netpoll.Writer) error {
	atomic.AddInt32(&w.m.appended, 1)
	return nil
}

func (w *verifWriter) Flush() error {
	atomic.StoreInt32(&w.m.appended, 0)
	atomic.AddInt32(&w.m.flushes, 1)
	return nil
}

type verifConn struct {
	netpoll.Connection
	m *verifMon
	w *verifWriter
}

func (c *verifConn) IsActive() bool         { return atomic.LoadInt32(&c.m.connOpen) == 1 }
func (c *verifConn) Writer() netpoll.Writer { return c.w }
func (c *verifConn) Close() error           { atomic.StoreInt32(&c.m.connOpen, 0); return nil }

func verifRunTask(ctx context.Context, f func()) { verifSpawn(f) }

func verifGetter(m *verifMon, k int, buf netpoll.Writer) WriterGetter {
	return func() (netpoll.Writer, bool) {
		n := atomic.AddInt32(&m.inv[k], 1)
		verifAssert(n == 1, "C17/getter-invoked-twice")
		return buf, false
	}
}

func verifQueue(size int) (*ShardQueue, *verifMon) {
	runner.RunTask = verifRunTask
	m := &verifMon{connOpen: 1}
	w := &verifWriter{m: m}
	c := &verifConn{m: m, w: w}
	return NewShardQueue(size, c), m
}

// Coarse-grained schedules (sequential): a script of up to 5 steps, each one of
//   Add(next getter) | run one pending worker task to completion | Close
// chosen by the solver, over a queue of 1..3 shards. The worker task runs atomically between
// user calls (fine-grained interleavings inside Add/worker are NOT covered: the partial-order
// exploration of this pointer-rich code does not converge, see DESIGN 5.18).
//
// Oracle: no getter is invoked twice; after every pending task has run, every getter added
// before Close was invoked exactly once and a Flush followed the last Append; Adds after Close
// invoke nothing; Close returns only when the trigger counter is zero; the trigger ring never
// loses an entry when adds outnumber the shards.
//
//verif:bounds shards 1..3; <= 5 steps (Add / run worker / Close); <= 4 getters; worker tasks run atomically
//verif:param 1 3
//verif:loop 40
//verif:replay interp
//verif:blockok
func verifHarness_C17_script(size int) {
	q, m := verifQueue(size)
	var buf netpoll.Writer = &verifWriter{m: m}
	added := 0
	closed := false
	addedBeforeClose := 0
	for step := 0; step < 5; step++ {
		switch verifPick("step", 0, 2) {
		case 0:
			if added < 4 {
				q.Add(verifGetter(m, added, buf))
				if !closed {
					addedBeforeClose++
				} else {
					// an Add after Close returned is ignored
				}
				added++
			}
		case 1:
			verifRunPending()
		case 2:
			if !closed {
				// Close spins until the worker has drained: in a sequential schedule it can
				// only be called when no task is pending
				verifAssume(atomic.LoadInt32(&q.trigger) == 0)
				err := q.Close()
				verifAssert(err == nil, "C17/close-error")
				closed = true
			}
		}
	}
	for verifRunPending() {
	}
	for k := 0; k < 4; k++ {
		n := atomic.LoadInt32(&m.inv[k])
		verifAssert(n <= 1, "C17/getter-invoked-twice")
		if k < addedBeforeClose {
			verifAssert(n == 1, "C17/getter-added-before-close-not-invoked")
		} else if k < added {
			verifAssert(n == 0, "C17/add-after-close-invoked-getter")
		}
	}
	verifAssert(atomic.LoadInt32(&m.appended) == 0, "C17/append-without-flush")
	verifAssert(atomic.LoadInt32(&q.trigger) == 0, "C17/trigger-not-zero-at-quiescence")
	verifReach("end")
}
