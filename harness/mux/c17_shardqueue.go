//go:build verif

package mux

import (
	"context"
	"sync/atomic"

	"github.com/cloudwego/netpoll"
	"github.com/cloudwego/netpoll/internal/runner"
)

// C17 — ShardQueue (DESIGN 5.18). The connection and its writer are recorders; getters are
// harness closures that count their invocations. Monitors are atomic counters, so every
// monitor step is one event of the partial-order encoding.

type verifMon struct {
	inv      [4]int32 // invocations per getter
	appended int32    // Appends not yet followed by a Flush
	flushes  int32
	inWorker int32
	closedQ  int32 // set when Close returned
	addDone  [4]int32
	connOpen int32
}

type verifWriter struct {
	netpoll.Writer
	m *verifMon
}

func (w *verifWriter) Append(b netpoll.Writer) error {
	atomic.AddInt32(&w.m.appended, 1)
	verifInject("append")
	return nil
}

func (w *verifWriter) Flush() error {
	verifInject("flush.begin")
	atomic.StoreInt32(&w.m.appended, 0)
	atomic.AddInt32(&w.m.flushes, 1)
	verifInject("flush.end")
	return nil
}

// Injection (harness C17_inject): at every point where the worker calls out of the queue code
// (IsActive, a getter, Append, Flush) another goroutine may run a complete Add. The injected
// Add is the real code, executed at that point of the worker's progress.
type verifInjector struct {
	q      *ShardQueue
	m      *verifMon
	buf    netpoll.Writer
	added  int
	budget int
	// Close injection (harness C17_closeinject)
	allowClose       bool
	closeBegan       bool
	closeReturned    bool
	addedBeforeClose int
}

//verif:stub runtime.Gosched verifGosched

type verifYield struct{}

// 0: a spinning caller lets one pending task run (blocked if there is none);
// 1: the spinning caller is a Close nested inside a worker call-out: it is suspended by
//    unwinding out of it (it has only read since its CAS) and its wait is finished by
//    verifCloseWait below.
var verifYieldMode int

func verifGosched() {
	if verifYieldMode == 1 {
		verifPanicOK()
		panic(verifYield{})
	}
	if !verifRunPending() {
		verifAssume(false)
	}
}

// Close begins here (the real code up to its first wait), possibly inside a worker call-out.
func (in *verifInjector) beginClose() {
	in.closeBegan = true
	in.addedBeforeClose = in.added
	defer func() {
		verifYieldMode = 0
		if r := recover(); r != nil {
			if _, ok := r.(verifYield); !ok {
				panic(r)
			}
		}
	}()
	verifYieldMode = 1
	err := in.q.Close()
	verifAssert(err == nil, "C17/close-error")
	// returned without waiting
	in.closeReturned = true
	in.checkClosed()
}

// the rest of Close's wait loop, observed between tasks: it returns as soon as it sees the
// state closed, or the trigger counter at zero
func (in *verifInjector) closeWait() {
	if !in.closeBegan || in.closeReturned {
		return
	}
	if atomic.LoadInt32(&in.q.state) == closed {
		in.closeReturned = true
		in.checkClosed()
		return
	}
	if atomic.LoadInt32(&in.q.trigger) == 0 {
		atomic.StoreInt32(&in.q.state, closed)
		in.closeReturned = true
		in.checkClosed()
	}
}

// what must hold when Close returns
func (in *verifInjector) checkClosed() {
	for k := 0; k < 4; k++ {
		if k < in.addedBeforeClose {
			verifAssert(atomic.LoadInt32(&in.m.inv[k]) == 1, "C17/close-returned-before-every-added-getter-was-invoked")
		}
	}
	// (the property asks for "handled", i.e. invoked and appended; the flush of the last batch
	// may still be in progress when Close sees the trigger counter at zero, so it is not asserted)
}

var verifInj *verifInjector

func verifInject(where string) {
	in := verifInj
	if in == nil {
		return
	}
	if in.allowClose && !in.closeBegan && verifNondetBool("inject.close."+where) {
		in.beginClose()
		return
	}
	if in.budget == 0 || in.added >= 4 {
		return
	}
	if verifNondetBool("inject." + where) {
		in.budget--
		k := in.added
		in.added++
		in.q.Add(verifGetter(in.m, k, in.buf))
	}
}

type verifConn struct {
	netpoll.Connection
	m *verifMon
	w *verifWriter
}

func (c *verifConn) IsActive() bool {
	verifInject("isactive")
	return atomic.LoadInt32(&c.m.connOpen) == 1
}
func (c *verifConn) Writer() netpoll.Writer { return c.w }
func (c *verifConn) Close() error           { atomic.StoreInt32(&c.m.connOpen, 0); return nil }

func verifRunTask(ctx context.Context, f func()) { verifSpawn(f) }

func verifGetter(m *verifMon, k int, buf netpoll.Writer) WriterGetter {
	return func() (netpoll.Writer, bool) {
		verifInject("getter.begin")
		n := atomic.AddInt32(&m.inv[k], 1)
		verifAssert(n == 1, "C17/getter-invoked-twice")
		verifInject("getter.end")
		return buf, false
	}
}

func verifQueue(size int) (*ShardQueue, *verifMon) {
	verifInj = nil
	runner.RunTask = verifRunTask
	m := &verifMon{connOpen: 1}
	w := &verifWriter{m: m}
	c := &verifConn{m: m, w: w}
	return NewShardQueue(size, c), m
}

// Coarse-grained schedules (sequential): a script of up to 5 steps, each one of
//   Add(next getter) | run one pending worker task to completion | Close
// chosen by the solver, over a queue of 1..3 shards. The worker task runs atomically between
// user calls (fine-grained interleavings inside Add/worker are NOT covered: the partial-order
// exploration of this pointer-rich code does not converge, see DESIGN 5.18).
//
// Oracle: no getter is invoked twice; after every pending task has run, every getter added
// before Close was invoked exactly once and a Flush followed the last Append; Adds after Close
// invoke nothing; Close returns only when the trigger counter is zero; the trigger ring never
// loses an entry when adds outnumber the shards.
//
//verif:bounds shards 1..3; <= 5 steps (Add / run worker / Close); <= 4 getters; worker tasks run atomically
//verif:param 1 3
//verif:loop 40
//verif:replay interp
//verif:blockok
func verifHarness_C17_script(size int) {
	q, m := verifQueue(size)
	var buf netpoll.Writer = &verifWriter{m: m}
	added := 0
	closed := false
	addedBeforeClose := 0
	for step := 0; step < 5; step++ {
		switch verifPick("step", 0, 2) {
		case 0:
			if added < 4 {
				q.Add(verifGetter(m, added, buf))
				if !closed {
					addedBeforeClose++
				} else {
					// an Add after Close returned is ignored
				}
				added++
			}
		case 1:
			verifRunPending()
		case 2:
			if !closed {
				// Close spins until the worker has drained: in a sequential schedule it can
				// only be called when no task is pending
				verifAssume(atomic.LoadInt32(&q.trigger) == 0)
				err := q.Close()
				verifAssert(err == nil, "C17/close-error")
				closed = true
			}
		}
	}
	for verifRunPending() {
	}
	for k := 0; k < 4; k++ {
		n := atomic.LoadInt32(&m.inv[k])
		verifAssert(n <= 1, "C17/getter-invoked-twice")
		if k < addedBeforeClose {
			verifAssert(n == 1, "C17/getter-added-before-close-not-invoked")
		} else if k < added {
			verifAssert(n == 0, "C17/add-after-close-invoked-getter")
		}
	}
	verifAssert(atomic.LoadInt32(&m.appended) == 0, "C17/append-without-flush")
	verifAssert(atomic.LoadInt32(&q.trigger) == 0, "C17/trigger-not-zero-at-quiescence")
	verifReach("end")
}

// Call-granular interleavings: one or two Adds, then the worker runs; at every call the worker
// makes out of the queue code (IsActive, getters, Append, Flush) up to 3 further complete Adds
// from "another goroutine" may be injected (chosen by the solver). All tasks then run to the
// end. Same oracle as the script harness.
//
//verif:bounds shards 1..3; 1-2 initial Adds + <= 3 Adds injected at the worker's call-outs (7 kinds of point); <= 4 getters; no Close
//verif:param 1 3
//verif:loop 40
//verif:replay interp
//verif:blockok
func verifHarness_C17_inject(size int) {
	q, m := verifQueue(size)
	var buf netpoll.Writer = &verifWriter{m: m}
	in := &verifInjector{q: q, m: m, buf: buf}
	q.Add(verifGetter(m, 0, buf))
	in.added = 1
	if verifNondetBool("second.add") {
		q.Add(verifGetter(m, 1, buf))
		in.added = 2
	}
	in.budget = 3
	verifInj = in
	for verifRunPending() {
	}
	verifInj = nil
	for verifRunPending() {
	}
	for k := 0; k < 4; k++ {
		n := atomic.LoadInt32(&m.inv[k])
		if k < in.added {
			verifAssert(n == 1, "C17/getter-not-invoked-exactly-once")
		} else {
			verifAssert(n == 0, "C17/getter-never-added-was-invoked")
		}
	}
	verifAssert(atomic.LoadInt32(&m.appended) == 0, "C17/append-without-flush")
	verifAssert(atomic.LoadInt32(&q.trigger) == 0, "C17/trigger-not-zero-at-quiescence")
	verifAssert(atomic.LoadInt32(&q.runNum) == 0, "C17/worker-count-not-zero-at-quiescence")
	verifReach("end")
}

// As C17_inject, plus one Close that may begin at any of the worker's call-outs (or between
// tasks). A Close that has to wait is suspended after its CAS and its wait is completed
// between tasks (see verifGosched): it returns as soon as it can observe state closed or the
// trigger counter at zero. Oracle: at that moment every getter added before Close began has
// been invoked once and flushed; Adds after Close began invoke nothing.
//
//verif:bounds shards 1..2; 1 initial Add + <= 2 injected Adds + 1 Close at the worker's call-outs; <= 4 getters
//verif:param 1 2
//verif:loop 40
//verif:replay interp
//verif:blockok
func verifHarness_C17_closeinject(size int) {
	q, m := verifQueue(size)
	var buf netpoll.Writer = &verifWriter{m: m}
	in := &verifInjector{q: q, m: m, buf: buf, allowClose: true}
	q.Add(verifGetter(m, 0, buf))
	in.added = 1
	in.budget = 2
	verifInj = in
	for {
		in.closeWait()
		if !verifRunPending() {
			break
		}
	}
	verifInj = nil
	if !in.closeBegan {
		in.beginClose()
	}
	for !in.closeReturned {
		in.closeWait()
		if in.closeReturned {
			break
		}
		if !verifRunPending() {
			verifAssume(false)
		}
	}
	for verifRunPending() {
	}
	for k := 0; k < 4; k++ {
		n := atomic.LoadInt32(&m.inv[k])
		if k < in.addedBeforeClose {
			verifAssert(n == 1, "C17/getter-not-invoked-exactly-once")
		} else {
			verifAssert(n <= 1, "C17/getter-invoked-twice")
		}
	}
	verifAssert(atomic.LoadInt32(&q.state) == closed, "C17/not-closed-after-close")
	verifReach("end")
}
