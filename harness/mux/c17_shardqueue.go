//go:build verif

package mux

import (
	"sync"
	"sync/atomic"

	"github.com/cloudwego/netpoll"
)

//verif:stub runtime.Gosched verifGosched
//verif:stub (*sync.Mutex).Lock verifListLock
//verif:stub (*sync.Mutex).Unlock verifListUnlock

// listLock is only taken by adders (inside triggering), never by the worker, and the harnesses
// are sequential: the mutex itself is a no-op here. Its Lock call is the one point inside Add
// where the adder calls out of the queue code: a worker task started by an earlier Add may run
// to completion right there (harness C17_inject), i.e. between whatever Add does before and
// after taking the lock.
var verifLockInject bool

func verifListLock(m *sync.Mutex) {
	if verifLockInject && verifNondetBool("worker.runs.at.listlock") {
		for verifRunPending() {
		}
	}
}

func verifListUnlock(m *sync.Mutex) {}

func verifGosched() {
	if verifYieldMode == 1 {
		verifPanicOK()
		panic(verifYield{})
	}
	if !verifRunPending() {
		verifAssume(false)
	}
}


// Coarse-grained schedules (sequential): a script of up to 5 steps, each one of
//   Add(next getter) | run one pending worker task to completion | Close
// chosen by the solver, over a queue of 1..3 shards. The worker task runs atomically between
// user calls (fine-grained interleavings inside Add/worker are NOT covered: the partial-order
// exploration of this pointer-rich code does not converge, see DESIGN 5.18).
//
// Oracle: no getter is invoked twice; after every pending task has run, every getter added
// before Close was invoked exactly once and a Flush followed the last Append; Adds after Close
// invoke nothing; Close returns only when the trigger counter is zero; the trigger ring never
// loses an entry when adds outnumber the shards.
//
//verif:bounds shards 1..3; <= 5 steps (Add / run worker / Close); <= 4 getters; worker tasks run atomically
//verif:param 1 3
//verif:loop 40
//verif:replay interp
//verif:blockok
func verifHarness_C17_script(size int) {
	q, m := verifQueue(size)
	var buf netpoll.Writer = &verifWriter{m: m}
	added := 0
	closed := false
	addedBeforeClose := 0
	for step := 0; step < 5; step++ {
		switch verifPick("step", 0, 2) {
		case 0:
			if added < 4 {
				q.Add(verifGetter(m, added, buf))
				if !closed {
					addedBeforeClose++
				} else {
					// an Add after Close returned is ignored
				}
				added++
			}
		case 1:
			verifRunPending()
		case 2:
			if !closed {
				// Close spins until the worker has drained: in a sequential schedule it can
				// only be called when no task is pending
				verifAssume(atomic.LoadInt32(&q.trigger) == 0)
				err := q.Close()
				verifAssert(err == nil, "C17/close-error")
				closed = true
			}
		}
	}
	for verifRunPending() {
	}
	for k := 0; k < 4; k++ {
		n := atomic.LoadInt32(&m.inv[k])
		verifAssert(n <= 1, "C17/getter-invoked-twice")
		if k < addedBeforeClose {
			verifAssert(n == 1, "C17/getter-added-before-close-not-invoked")
		} else if k < added {
			verifAssert(n == 0, "C17/add-after-close-invoked-getter")
		}
	}
	verifAssert(atomic.LoadInt32(&m.appended) == 0, "C17/append-without-flush")
	verifAssert(atomic.LoadInt32(&q.trigger) == 0, "C17/trigger-not-zero-at-quiescence")
	verifReach("end")
}

// Call-granular interleavings: one or two Adds, then the worker runs; at every call the worker
// makes out of the queue code (IsActive, getters, Append, Flush) up to 3 further complete Adds
// from "another goroutine" may be injected (chosen by the solver). All tasks then run to the
// end. Same oracle as the script harness.
//
//verif:bounds shards 1..3; 1-2 initial Adds (the worker started by the first may run while the second is at its listLock call) + <= 3 Adds injected at the worker's call-outs (7 kinds of point); <= 4 getters; no Close
//verif:param 1 3
//verif:loop 40
//verif:replay interp
//verif:blockok
func verifHarness_C17_inject(size int) {
	q, m := verifQueue(size)
	var buf netpoll.Writer = &verifWriter{m: m}
	in := &verifInjector{q: q, m: m, buf: buf}
	verifLockInject = true
	q.Add(verifGetter(m, 0, buf))
	in.added = 1
	if verifNondetBool("second.add") {
		q.Add(verifGetter(m, 1, buf))
		in.added = 2
	}
	verifLockInject = false
	in.budget = 3
	verifInj = in
	for verifRunPending() {
	}
	verifInj = nil
	for verifRunPending() {
	}
	for k := 0; k < 4; k++ {
		n := atomic.LoadInt32(&m.inv[k])
		if k < in.added {
			verifAssert(n == 1, "C17/getter-not-invoked-exactly-once")
		} else {
			verifAssert(n == 0, "C17/getter-never-added-was-invoked")
		}
	}
	verifAssert(atomic.LoadInt32(&m.appended) == 0, "C17/append-without-flush")
	verifAssert(atomic.LoadInt32(&q.trigger) == 0, "C17/trigger-not-zero-at-quiescence")
	verifAssert(atomic.LoadInt32(&q.runNum) == 0, "C17/worker-count-not-zero-at-quiescence")
	verifReach("end")
}

// As C17_inject, plus one Close that may begin at any of the worker's call-outs (or between
// tasks). A Close that has to wait is suspended after its CAS and its wait is completed
// between tasks (see verifGosched): it returns as soon as it can observe state closed or the
// trigger counter at zero. Oracle: at that moment every getter added before Close began has
// been invoked once and flushed; Adds after Close began invoke nothing.
//
//verif:bounds shards 1..2; 1 initial Add + <= 2 injected Adds + 1 Close at the worker's call-outs; <= 4 getters
//verif:param 1 2
//verif:loop 40
//verif:replay interp
//verif:blockok
func verifHarness_C17_closeinject(size int) {
	q, m := verifQueue(size)
	var buf netpoll.Writer = &verifWriter{m: m}
	in := &verifInjector{q: q, m: m, buf: buf, allowClose: true}
	q.Add(verifGetter(m, 0, buf))
	in.added = 1
	in.budget = 2
	verifInj = in
	for {
		in.closeWait()
		if !verifRunPending() {
			break
		}
	}
	verifInj = nil
	if !in.closeBegan {
		in.beginClose()
	}
	for !in.closeReturned {
		in.closeWait()
		if in.closeReturned {
			break
		}
		if !verifRunPending() {
			verifAssume(false)
		}
	}
	for verifRunPending() {
	}
	for k := 0; k < 4; k++ {
		n := atomic.LoadInt32(&m.inv[k])
		if k < in.addedBeforeClose {
			verifAssert(n == 1, "C17/getter-not-invoked-exactly-once")
		} else {
			verifAssert(n <= 1, "C17/getter-invoked-twice")
		}
	}
	verifAssert(atomic.LoadInt32(&q.state) == closed, "C17/not-closed-after-close")
	verifReach("end")
}
