//go:build verif

package mux

import (
	"context"
	"sync/atomic"

	"github.com/cloudwego/netpoll"
	"github.com/cloudwego/netpoll/internal/runner"
)

// C17 — ShardQueue (DESIGN 5.18). The connection and its writer are recorders; getters are
// harness closures that count their invocations. Monitors are atomic counters, so every
// monitor step is one event of the partial-order encoding.

type verifMon struct {
	inv      [4]int32 // invocations per getter
	appended int32    // Appends not yet followed by a Flush
	flushes  int32
	inWorker int32
	closedQ  int32 // set when Close returned
	addDone  [4]int32
	connOpen int32
}

type verifWriter struct {
	netpoll.Writer
	m *verifMon
}

func (w *verifWriter) Append(b netpoll.Writer) error {
	atomic.AddInt32(&w.m.appended, 1)
	return nil
}

func (w *verifWriter) Flush() error {
	atomic.StoreInt32(&w.m.appended, 0)
	atomic.AddInt32(&w.m.flushes, 1)
	return nil
}

type verifConn struct {
	netpoll.Connection
	m *verifMon
	w *verifWriter
}

func (c *verifConn) IsActive() bool         { return atomic.LoadInt32(&c.m.connOpen) == 1 }
func (c *verifConn) Writer() netpoll.Writer { return c.w }
func (c *verifConn) Close() error           { atomic.StoreInt32(&c.m.connOpen, 0); return nil }

func verifRunTask(ctx context.Context, f func()) { verifSpawn(f) }

func verifGetter(m *verifMon, k int, buf netpoll.Writer) WriterGetter {
	return func() (netpoll.Writer, bool) {
		n := atomic.AddInt32(&m.inv[k], 1)
		verifAssert(n == 1, "C17/getter-invoked-twice")
		return buf, false
	}
}

func verifQueue(size int) (*ShardQueue, *verifMon) {
	runner.RunTask = verifRunTask
	m := &verifMon{connOpen: 1}
	w := &verifWriter{m: m}
	c := &verifConn{m: m, w: w}
	return NewShardQueue(size, c), m
}

// Two adders, one getter each, shard count 1 or 2, no Close: every getter is invoked exactly
// once and a Flush follows its Append without any further Add.
//
//verif:po
//verif:bounds size in {1,2}; 2 adder threads x 1 Add; worker respawn <= 3; spin/loop unrolling 3
//verif:param 1 2
//verif:loop 3
func verifHarness_C17_add2(size int) {
	q, m := verifQueue(size)
	var buf netpoll.Writer = &verifWriter{m: m}
	g0 := verifGetter(m, 0, buf)
	g1 := verifGetter(m, 1, buf)
	verifThread("adder0", func() { q.Add(g0); verifReach("add0") })
	verifThread("adder1", func() { q.Add(g1); verifReach("add1") })
	verifFinal("quiescent", func() {
		verifAssert(atomic.LoadInt32(&m.inv[0]) == 1, "C17/getter0-not-invoked-once")
		verifAssert(atomic.LoadInt32(&m.inv[1]) == 1, "C17/getter1-not-invoked-once")
		verifAssert(atomic.LoadInt32(&m.appended) == 0, "C17/append-without-flush")
		verifAssert(atomic.LoadInt32(&q.trigger) == 0, "C17/trigger-not-zero")
	})
}

// One adder issuing a burst of three Adds into a ring of size 2 (wraps the trigger ring) while
// the worker runs.
//
//verif:po
//verif:bounds size 2; 1 adder x 3 Adds (ring wrap); worker respawn <= 3; unrolling 4
//verif:loop 4
func verifHarness_C17_burst() {
	q, m := verifQueue(2)
	var buf netpoll.Writer = &verifWriter{m: m}
	g0 := verifGetter(m, 0, buf)
	g1 := verifGetter(m, 1, buf)
	g2 := verifGetter(m, 2, buf)
	verifThread("adder", func() { q.Add(g0); q.Add(g1); q.Add(g2); verifReach("added") })
	verifFinal("quiescent", func() {
		verifAssert(atomic.LoadInt32(&m.inv[0]) == 1, "C17/getter0-not-invoked-once")
		verifAssert(atomic.LoadInt32(&m.inv[1]) == 1, "C17/getter1-not-invoked-once")
		verifAssert(atomic.LoadInt32(&m.inv[2]) == 1, "C17/getter2-not-invoked-once")
		verifAssert(atomic.LoadInt32(&m.appended) == 0, "C17/append-without-flush")
	})
}

// Close concurrent with an Add: a getter whose Add returned before Close was called has been
// invoked when Close returns; an Add that starts after Close returned invokes nothing.
//
//verif:po
//verif:bounds size 1; 1 adder (Add, then a late Add after Close returned) ; 1 closer; unrolling 4
//verif:loop 4
func verifHarness_C17_close() {
	q, m := verifQueue(1)
	var buf netpoll.Writer = &verifWriter{m: m}
	g0 := verifGetter(m, 0, buf)
	g1 := verifGetter(m, 1, buf)
	verifThread("adder", func() {
		q.Add(g0)
		atomic.StoreInt32(&m.addDone[0], 1)
		verifReach("add0")
	})
	verifThread("closer", func() {
		before := atomic.LoadInt32(&m.addDone[0])
		err := q.Close()
		if err == nil && before == 1 {
			verifAssert(atomic.LoadInt32(&m.inv[0]) == 1, "C17/close-returned-before-getter-handled")
		}
		atomic.StoreInt32(&m.closedQ, 1)
		verifReach("closed")
	})
	verifThread("late", func() {
		if atomic.LoadInt32(&m.closedQ) == 1 {
			q.Add(g1)
			verifAssert(atomic.LoadInt32(&m.inv[1]) == 0, "C17/add-after-close-invoked")
		}
	})
	verifFinal("quiescent", func() {
		verifAssert(atomic.LoadInt32(&m.inv[0]) <= 1, "C17/getter0-twice")
	})
}
