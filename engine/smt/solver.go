package smt

import (
	"bufio"
	"fmt"
	"io"
	"os/exec"
	"strings"
	"sync"
	"time"
)

type Result int

const (
	Unsat Result = iota
	Sat
	Unknown
)

func (r Result) String() string { return [...]string{"unsat", "sat", "unknown"}[r] }

// Solver is one persistent solver process driven over stdin/stdout.
type Solver struct {
	Kind      string // "z3", "z3-new", "cvc5"
	cmd       *exec.Cmd
	in        io.WriteCloser
	out       *bufio.Reader
	declared  map[string]bool
	TimeoutMs int
	Queries   int
	Time      time.Duration
	Errors    int
	mu        sync.Mutex
	lines     chan string
	dead      bool
	Log       io.Writer // optional transcript
}

func NewSolver(kind string, timeoutMs int) (*Solver, error) {
	s := &Solver{Kind: kind, TimeoutMs: timeoutMs}
	if err := s.start(); err != nil {
		return nil, err
	}
	return s, nil
}

func (s *Solver) start() error {
	var cmd *exec.Cmd
	switch s.Kind {
	case "z3", "z3-new":
		cmd = exec.Command(s.Kind, "-in", "-smt2")
	case "cvc5":
		cmd = exec.Command("cvc5", "--incremental", "--lang=smt2", "--produce-models", fmt.Sprintf("--tlimit-per=%d", s.TimeoutMs))
	default:
		return fmt.Errorf("unknown solver %s", s.Kind)
	}
	in, err := cmd.StdinPipe()
	if err != nil {
		return err
	}
	out, err := cmd.StdoutPipe()
	if err != nil {
		return err
	}
	cmd.Stderr = cmd.Stdout
	if err := cmd.Start(); err != nil {
		return err
	}
	s.cmd, s.in = cmd, in
	s.out = bufio.NewReaderSize(out, 1<<20)
	s.declared = map[string]bool{}
	s.dead = false
	s.lines = make(chan string, 1024)
	go func(r *bufio.Reader, ch chan string) {
		for {
			l, err := r.ReadString('\n')
			if l != "" {
				ch <- strings.TrimRight(l, "\n")
			}
			if err != nil {
				close(ch)
				return
			}
		}
	}(s.out, s.lines)
	s.send("(set-option :produce-models true)")
	if s.Kind == "cvc5" {
		s.send("(set-logic ALL)")
	} else {
		s.send(fmt.Sprintf("(set-option :timeout %d)", s.TimeoutMs))
	}
	return nil
}

func (s *Solver) send(l string) {
	if s.Log != nil {
		fmt.Fprintln(s.Log, l)
	}
	io.WriteString(s.in, l)
	io.WriteString(s.in, "\n")
}

func (s *Solver) Close() {
	if s.cmd != nil && !s.dead {
		s.send("(exit)")
		s.in.Close()
		done := make(chan struct{})
		go func() { s.cmd.Wait(); close(done) }()
		select {
		case <-done:
		case <-time.After(2 * time.Second):
			s.cmd.Process.Kill()
		}
		s.dead = true
	}
}

func (s *Solver) restart() {
	if s.cmd != nil && s.cmd.Process != nil {
		s.cmd.Process.Kill()
		s.cmd.Wait()
	}
	s.start()
}

// readLine with deadline; ok=false on timeout/eof.
func (s *Solver) readLine(d time.Duration) (string, bool) {
	select {
	case l, ok := <-s.lines:
		if !ok {
			return "", false
		}
		return l, true
	case <-time.After(d):
		return "", false
	}
}

// Check decides the conjunction of asserts. If wantModel, values for the given vars
// are returned when sat.
func (s *Solver) Check(asserts []*Term, modelVars []*Term) (Result, map[string]uint64, string) {
	s.mu.Lock()
	defer s.mu.Unlock()
	t0 := time.Now()
	defer func() { s.Time += time.Since(t0); s.Queries++ }()

	for _, a := range asserts {
		if a.IsFalse() {
			return Unsat, nil, ""
		}
	}
	decls, body := Render(asserts)
	var sb strings.Builder
	for _, d := range decls {
		if !s.declared[d] {
			s.declared[d] = true
			sb.WriteString(d)
			sb.WriteByte('\n')
		}
	}
	// model vars must be declared even if they were simplified away
	for _, v := range modelVars {
		d := fmt.Sprintf("(declare-fun %s () %s)", v.Name, v.S)
		if !s.declared[d] {
			s.declared[d] = true
			sb.WriteString(d)
			sb.WriteByte('\n')
		}
	}
	sb.WriteString("(push 1)\n")
	for _, b := range body {
		sb.WriteString(b)
		sb.WriteByte('\n')
	}
	sb.WriteString("(check-sat)")
	s.send(sb.String())
	wait := time.Duration(s.TimeoutMs)*time.Millisecond*2 + 5*time.Second
	var res Result = Unknown
	note := ""
	for {
		l, ok := s.readLine(wait)
		if !ok {
			note = "solver timeout/eof; restarted"
			s.Errors++
			s.restart()
			return Unknown, nil, note
		}
		l = strings.TrimSpace(l)
		if l == "sat" {
			res = Sat
			break
		}
		if l == "unsat" {
			res = Unsat
			break
		}
		if l == "unknown" {
			res = Unknown
			break
		}
		if strings.HasPrefix(l, "(error") {
			s.Errors++
			note = l
			// drain: solver will still answer check-sat; treat as unknown
			res = Unknown
			// keep reading until an answer line
			continue
		}
	}
	if note != "" {
		res = Unknown
	}
	var model map[string]uint64
	if res == Sat && len(modelVars) > 0 {
		model = map[string]uint64{}
		// chunk get-value requests
		const chunk = 200
		for i := 0; i < len(modelVars); i += chunk {
			j := i + chunk
			if j > len(modelVars) {
				j = len(modelVars)
			}
			var names []string
			for _, v := range modelVars[i:j] {
				names = append(names, v.Name)
			}
			s.send("(get-value (" + strings.Join(names, " ") + "))")
			txt, ok := s.readSexp(wait)
			if !ok {
				s.Errors++
				s.restart()
				return Unknown, nil, "get-value failed"
			}
			parseModel(txt, model)
		}
	}
	s.send("(pop 1)")
	return res, model, note
}

func (s *Solver) readSexp(wait time.Duration) (string, bool) {
	var sb strings.Builder
	depth := 0
	started := false
	for {
		l, ok := s.readLine(wait)
		if !ok {
			return "", false
		}
		for _, ch := range l {
			if ch == '(' {
				depth++
				started = true
			} else if ch == ')' {
				depth--
			}
		}
		sb.WriteString(l)
		sb.WriteByte(' ')
		if started && depth <= 0 {
			return sb.String(), true
		}
	}
}

// parseModel parses "((a #x01) (b true) (c (- 3)))".
func parseModel(txt string, m map[string]uint64) {
	txt = strings.TrimSpace(txt)
	// strip outer parens
	i := strings.Index(txt, "(")
	j := strings.LastIndex(txt, ")")
	if i < 0 || j <= i {
		return
	}
	txt = txt[i+1 : j]
	depth := 0
	start := -1
	for k, ch := range txt {
		if ch == '(' {
			if depth == 0 {
				start = k
			}
			depth++
		} else if ch == ')' {
			depth--
			if depth == 0 && start >= 0 {
				item := txt[start+1 : k]
				sp := strings.IndexAny(item, " \t")
				if sp > 0 {
					name := item[:sp]
					if v, ok := ParseValue(item[sp+1:]); ok {
						m[name] = v
					}
				}
				start = -1
			}
		}
	}
}

// CheckText runs a full SMT-LIB script in a fresh one-shot process (used for big PO queries
// and cross-checks). Returns the first sat/unsat/unknown line and the raw output.
func CheckText(kind string, script string, timeout time.Duration) (Result, string) {
	var cmd *exec.Cmd
	switch kind {
	case "z3", "z3-new":
		cmd = exec.Command(kind, "-in", "-smt2", fmt.Sprintf("-T:%d", int(timeout.Seconds())+1))
	case "cvc5":
		cmd = exec.Command("cvc5", "--lang=smt2", "--produce-models", fmt.Sprintf("--tlimit=%d", timeout.Milliseconds()))
	}
	cmd.Stdin = strings.NewReader(script)
	done := make(chan struct{})
	var out []byte
	go func() { out, _ = cmd.CombinedOutput(); close(done) }()
	select {
	case <-done:
	case <-time.After(timeout + 10*time.Second):
		if cmd.Process != nil {
			cmd.Process.Kill()
		}
		<-done
	}
	txt := string(out)
	if strings.Contains(txt, "(error") {
		return Unknown, txt
	}
	for _, l := range strings.Split(txt, "\n") {
		l = strings.TrimSpace(l)
		switch l {
		case "sat":
			return Sat, txt
		case "unsat":
			return Unsat, txt
		case "unknown", "timeout":
			return Unknown, txt
		}
	}
	return Unknown, txt
}
