package smt

import (
	"bufio"
	"fmt"
	"io"
	"os"
	"os/exec"
	"strings"
	"sync"
	"time"
)

var SlowDir = os.Getenv("VERIF_SLOWLOG")

type Result int

const (
	Unsat Result = iota
	Sat
	Unknown
)

func (r Result) String() string { return [...]string{"unsat", "sat", "unknown"}[r] }

// Solver is one persistent solver process driven over stdin/stdout.
type Solver struct {
	Kind      string // "z3", "z3-new", "cvc5"
	cmd       *exec.Cmd
	in        io.WriteCloser
	out       *bufio.Reader
	declared  map[string]bool
	defined   map[int64]bool
	stack     []int64
	LIA       bool
	liaOK     map[int64]bool
	liaRanged map[string]int
	varMemo   map[int64][]*Term
	liaWeak   int
	Hist      [16]int
	HistT     [16]time.Duration
	TimeoutMs int
	Queries   int
	Time      time.Duration
	Errors    int
	mu        sync.Mutex
	lines     chan string
	dead      bool
	Log       io.Writer // optional transcript
}

func NewSolver(kind string, timeoutMs int) (*Solver, error) {
	s := &Solver{Kind: kind, TimeoutMs: timeoutMs}
	if err := s.start(); err != nil {
		return nil, err
	}
	return s, nil
}

func (s *Solver) start() error {
	var cmd *exec.Cmd
	switch s.Kind {
	case "z3", "z3-new":
		cmd = exec.Command(s.Kind, "-in", "-smt2")
	case "cvc5":
		cmd = exec.Command("cvc5", "--incremental", "--lang=smt2", "--produce-models", fmt.Sprintf("--tlimit-per=%d", s.TimeoutMs))
	default:
		return fmt.Errorf("unknown solver %s", s.Kind)
	}
	in, err := cmd.StdinPipe()
	if err != nil {
		return err
	}
	out, err := cmd.StdoutPipe()
	if err != nil {
		return err
	}
	cmd.Stderr = cmd.Stdout
	if err := cmd.Start(); err != nil {
		return err
	}
	s.cmd, s.in = cmd, in
	s.out = bufio.NewReaderSize(out, 1<<20)
	s.declared = map[string]bool{}
	s.defined = map[int64]bool{}
	s.stack = nil
	s.liaOK = map[int64]bool{}
	s.liaRanged = map[string]int{}
	s.varMemo = map[int64][]*Term{}
	s.dead = false
	s.lines = make(chan string, 1024)
	go func(r *bufio.Reader, ch chan string) {
		for {
			l, err := r.ReadString('\n')
			if l != "" {
				ch <- strings.TrimRight(l, "\n")
			}
			if err != nil {
				close(ch)
				return
			}
		}
	}(s.out, s.lines)
	s.send("(set-option :produce-models true)")
	s.send("(set-option :global-declarations true)")
	if s.Kind == "cvc5" {
		s.send("(set-logic ALL)")
	} else {
		s.send(fmt.Sprintf("(set-option :timeout %d)", s.TimeoutMs))
	}
	return nil
}

func (s *Solver) send(l string) {
	if s.Log != nil {
		fmt.Fprintln(s.Log, l)
	}
	io.WriteString(s.in, l)
	io.WriteString(s.in, "\n")
}

func (s *Solver) Close() {
	if s.cmd != nil && !s.dead {
		s.send("(exit)")
		s.in.Close()
		done := make(chan struct{})
		go func() { s.cmd.Wait(); close(done) }()
		select {
		case <-done:
		case <-time.After(2 * time.Second):
			s.cmd.Process.Kill()
		}
		s.dead = true
	}
}

func (s *Solver) restart() {
	if s.cmd != nil && s.cmd.Process != nil {
		s.cmd.Process.Kill()
		s.cmd.Wait()
	}
	s.start()
}

// readLine with deadline; ok=false on timeout/eof.
func (s *Solver) readLine(d time.Duration) (string, bool) {
	select {
	case l, ok := <-s.lines:
		if !ok {
			return "", false
		}
		return l, true
	case <-time.After(d):
		return "", false
	}
}

// emit writes the definitions needed for t (shared sub-terms get a global define-fun named
// after their hash-consed id) and returns the text of t.
func (s *Solver) emit(sb *strings.Builder, t *Term) string {
	cnt := map[int64]int{}
	var count func(t *Term)
	count = func(t *Term) {
		cnt[t.ID]++
		if cnt[t.ID] > 1 || s.defined[t.ID] {
			return
		}
		for _, a := range t.Args {
			count(a)
		}
	}
	count(t)
	var write func(out *strings.Builder, t *Term, top bool)
	var define func(t *Term)
	write = func(out *strings.Builder, t *Term, top bool) {
		if !top && s.defined[t.ID] {
			fmt.Fprintf(out, "t!%d", t.ID)
			return
		}
		switch t.Op {
		case "const":
			out.WriteString(constStr(t))
			return
		case "var":
			d := fmt.Sprintf("(declare-fun %s () %s)", t.Name, t.S)
			if !s.declared[d] {
				s.declared[d] = true
				sb.WriteString(d)
				sb.WriteByte('\n')
			}
			out.WriteString(t.Name)
			return
		case "app":
			if !s.declared["uf:"+t.Name] {
				s.declared["uf:"+t.Name] = true
				var as []string
				for _, a := range t.Args {
					as = append(as, a.S.String())
				}
				fmt.Fprintf(sb, "(declare-fun %s (%s) %s)\n", t.Name, strings.Join(as, " "), t.S)
			}
			out.WriteString("(" + t.Name)
		case "extract":
			fmt.Fprintf(out, "((_ extract %d %d)", t.X, t.Y)
		case "zext":
			fmt.Fprintf(out, "((_ zero_extend %d)", t.X)
		case "sext":
			fmt.Fprintf(out, "((_ sign_extend %d)", t.X)
		default:
			out.WriteString("(" + t.Op)
		}
		for _, a := range t.Args {
			out.WriteByte(' ')
			write(out, a, false)
		}
		out.WriteByte(')')
	}
	define = func(t *Term) {
		if s.defined[t.ID] || len(t.Args) == 0 {
			return
		}
		for _, a := range t.Args {
			define(a)
		}
		if cnt[t.ID] > 1 {
			var b strings.Builder
			write(&b, t, true)
			fmt.Fprintf(sb, "(define-fun t!%d () %s %s)\n", t.ID, t.S, b.String())
			s.defined[t.ID] = true
		}
	}
	define(t)
	var b strings.Builder
	write(&b, t, false)
	return b.String()
}

// Check decides pc ∧ extra. The solver's assertion stack mirrors pc (one push level per
// conjunct), so consecutive queries along a path, and sibling paths, only send what changed.
func (s *Solver) Check(pc []*Term, extra []*Term, modelVars []*Term) (Result, map[string]uint64, string) {
	s.mu.Lock()
	defer s.mu.Unlock()
	t0 := time.Now()
	defer func() {
		d := time.Since(t0)
		s.Time += d
		s.Queries++
		if d > 3*time.Second && SlowDir != "" {
			all := append(append([]*Term(nil), pc...), extra...)
			decls, body := Render(all)
			txt := strings.Join(decls, "\n") + "\n" + strings.Join(body, "\n") + "\n(check-sat)\n"
			os.WriteFile(fmt.Sprintf("%s/slow_%d_%d.smt2", SlowDir, os.Getpid(), s.Queries), []byte(fmt.Sprintf("; %v %s\n", d, s.Kind)+txt), 0o644)
		}
		b := 0
		for d > time.Millisecond<<uint(b) && b < 15 {
			b++
		}
		s.Hist[b]++
		s.HistT[b] += d
	}()

	for _, a := range pc {
		if a.IsFalse() {
			return Unsat, nil, ""
		}
	}
	for _, a := range extra {
		if a.IsFalse() {
			return Unsat, nil, ""
		}
	}
	var sb strings.Builder
	k := 0
	for k < len(s.stack) && k < len(pc) && s.stack[k] == pc[k].ID {
		k++
	}
	if k < len(s.stack) {
		fmt.Fprintf(&sb, "(pop %d)\n", len(s.stack)-k)
		s.stack = s.stack[:k]
	}
	if s.LIA {
		for n, d := range s.liaRanged {
			if d > k {
				delete(s.liaRanged, n)
			}
		}
	}
	for i := k; i < len(pc); i++ {
		var txt string
		if s.LIA {
			txt = s.liaEmit(&sb, pc[i], i+1)
		} else {
			txt = s.emit(&sb, pc[i])
		}
		sb.WriteString("(push 1)\n(assert " + txt + ")\n")
		s.stack = append(s.stack, pc[i].ID)
	}
	var etxt []string
	for _, e := range extra {
		if !e.IsTrue() {
			if s.LIA {
				etxt = append(etxt, s.liaEmit(&sb, e, len(pc)+1))
			} else {
				etxt = append(etxt, s.emit(&sb, e))
			}
		}
	}
	for _, v := range modelVars {
		d := fmt.Sprintf("(declare-fun %s () %s)", v.Name, v.S)
		if !s.declared[d] {
			s.declared[d] = true
			sb.WriteString(d)
			sb.WriteByte('\n')
		}
	}
	sb.WriteString("(push 1)\n")
	for _, e := range etxt {
		sb.WriteString("(assert " + e + ")\n")
	}
	sb.WriteString("(check-sat)")
	s.send(sb.String())
	wait := time.Duration(s.TimeoutMs)*time.Millisecond*2 + 5*time.Second
	var res Result = Unknown
	note := ""
	for {
		l, ok := s.readLine(wait)
		if !ok {
			note = "solver timeout/eof; restarted"
			s.Errors++
			s.restart()
			return Unknown, nil, note
		}
		l = strings.TrimSpace(l)
		if l == "sat" {
			res = Sat
			break
		}
		if l == "unsat" {
			res = Unsat
			break
		}
		if l == "unknown" {
			res = Unknown
			break
		}
		if strings.HasPrefix(l, "(error") {
			s.Errors++
			note = l
			continue
		}
	}
	if note != "" {
		res = Unknown
	}
	var model map[string]uint64
	if res == Sat && len(modelVars) > 0 {
		model = map[string]uint64{}
		const chunk = 200
		for i := 0; i < len(modelVars); i += chunk {
			j := i + chunk
			if j > len(modelVars) {
				j = len(modelVars)
			}
			var names []string
			for _, v := range modelVars[i:j] {
				names = append(names, v.Name)
			}
			s.send("(get-value (" + strings.Join(names, " ") + "))")
			txt, ok := s.readSexp(wait)
			if !ok {
				s.Errors++
				s.restart()
				return Unknown, nil, "get-value failed"
			}
			parseModel(txt, model)
		}
	}
	s.send("(pop 1)")
	return res, model, note
}

func (s *Solver) readSexp(wait time.Duration) (string, bool) {
	var sb strings.Builder
	depth := 0
	started := false
	for {
		l, ok := s.readLine(wait)
		if !ok {
			return "", false
		}
		for _, ch := range l {
			if ch == '(' {
				depth++
				started = true
			} else if ch == ')' {
				depth--
			}
		}
		sb.WriteString(l)
		sb.WriteByte(' ')
		if started && depth <= 0 {
			return sb.String(), true
		}
	}
}

// parseModel parses "((a #x01) (b true) (c (- 3)))".
func parseModel(txt string, m map[string]uint64) {
	txt = strings.TrimSpace(txt)
	// strip outer parens
	i := strings.Index(txt, "(")
	j := strings.LastIndex(txt, ")")
	if i < 0 || j <= i {
		return
	}
	txt = txt[i+1 : j]
	depth := 0
	start := -1
	for k, ch := range txt {
		if ch == '(' {
			if depth == 0 {
				start = k
			}
			depth++
		} else if ch == ')' {
			depth--
			if depth == 0 && start >= 0 {
				item := txt[start+1 : k]
				sp := strings.IndexAny(item, " \t")
				if sp > 0 {
					name := item[:sp]
					if v, ok := ParseValue(item[sp+1:]); ok {
						m[name] = v
					}
				}
				start = -1
			}
		}
	}
}

// CheckText runs a full SMT-LIB script in a fresh one-shot process (used for big PO queries
// and cross-checks). Returns the first sat/unsat/unknown line and the raw output.
func CheckText(kind string, script string, timeout time.Duration) (Result, string) {
	var cmd *exec.Cmd
	switch kind {
	case "z3", "z3-new":
		cmd = exec.Command(kind, "-in", "-smt2", fmt.Sprintf("-T:%d", int(timeout.Seconds())+1))
	case "cvc5":
		cmd = exec.Command("cvc5", "--lang=smt2", "--produce-models", fmt.Sprintf("--tlimit=%d", timeout.Milliseconds()))
	}
	cmd.Stdin = strings.NewReader(script)
	done := make(chan struct{})
	var out []byte
	go func() { out, _ = cmd.CombinedOutput(); close(done) }()
	select {
	case <-done:
	case <-time.After(timeout + 10*time.Second):
		if cmd.Process != nil {
			cmd.Process.Kill()
		}
		<-done
	}
	txt := string(out)
	for _, l := range strings.Split(txt, "\n") {
		l = strings.TrimSpace(l)
		if strings.HasPrefix(l, "(error") {
			return Unknown, txt
		}
		switch l {
		case "sat":
			return Sat, txt
		case "unsat":
			return Unsat, txt
		case "unknown", "timeout":
			return Unknown, txt
		}
	}
	return Unknown, txt
}


// SetTimeout changes the per-query timeout of the persistent process.
func (s *Solver) SetTimeout(ms int) {
	s.mu.Lock()
	defer s.mu.Unlock()
	if s.Kind != "cvc5" {
		s.send(fmt.Sprintf("(set-option :timeout %d)", ms))
	}
}

// CheckOneShot decides pc ∧ extra in a fresh solver process (the one-shot tactic pipeline is
// much faster than the incremental core on range/ite-heavy byte equalities).
func CheckOneShot(kind string, pc, extra, modelVars []*Term, timeout time.Duration) (Result, map[string]uint64, string) {
	all := append(append([]*Term(nil), pc...), extra...)
	for _, a := range all {
		if a.IsFalse() {
			return Unsat, nil, ""
		}
	}
	decls, body := Render(all)
	have := map[string]bool{}
	for _, d := range decls {
		have[d] = true
	}
	var sb strings.Builder
	if kind == "cvc5" {
		sb.WriteString("(set-logic ALL)\n")
	}
	sb.WriteString("(set-option :produce-models true)\n")
	for _, d := range decls {
		sb.WriteString(d + "\n")
	}
	for _, v := range modelVars {
		d := fmt.Sprintf("(declare-fun %s () %s)", v.Name, v.S)
		if !have[d] {
			have[d] = true
			sb.WriteString(d + "\n")
		}
	}
	for _, b := range body {
		sb.WriteString(b + "\n")
	}
	sb.WriteString("(check-sat)\n")
	if len(modelVars) > 0 {
		var names []string
		for _, v := range modelVars {
			names = append(names, v.Name)
		}
		sb.WriteString("(get-value (" + strings.Join(names, " ") + "))\n")
	}
	t0 := time.Now()
	res, out := CheckText(kind, sb.String(), timeout)
	if d := time.Since(t0); d > 3*time.Second && SlowDir != "" {
		os.WriteFile(fmt.Sprintf("%s/oneshot_%d_%d.smt2", SlowDir, os.Getpid(), time.Now().UnixNano()), []byte(fmt.Sprintf("; %v %s %v\n", d, kind, res)+sb.String()), 0o644)
	}
	if res == Unsat && strings.Contains(out, "(error") {
		// get-value after unsat errors; ignore that specific error
	}
	var model map[string]uint64
	if res == Sat && len(modelVars) > 0 {
		model = map[string]uint64{}
		if i := strings.Index(out, "("); i >= 0 {
			parseModel(out[i:], model)
		}
	}
	return res, model, ""
}


// ParseModelText extracts the (name value) pairs of a get-value answer from raw solver output.
func ParseModelText(out string) map[string]uint64 {
	m := map[string]uint64{}
	i := strings.Index(out, "((")
	if i < 0 {
		return m
	}
	parseModel(out[i:], m)
	return m
}
