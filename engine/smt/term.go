// Package smt: a small SMT-LIB2 term AST with constant folding and a text printer.
package smt

import (
	"fmt"
	"math/big"
	"sort"
	"strconv"
	"strings"
	"sync"
	"sync/atomic"
)

// Sort: W>0 bit-vector of width W; W==0 Bool; W==-1 Int.
type Sort int

const (
	Bool Sort = 0
	Int  Sort = -1
)

func (s Sort) String() string {
	switch {
	case s == Bool:
		return "Bool"
	case s == Int:
		return "Int"
	}
	return fmt.Sprintf("(_ BitVec %d)", int(s))
}

type Term struct {
	ID   int64
	Op   string // "const","var","app:<fn>" or SMT operator
	Args []*Term
	S    Sort
	C    uint64 // const value (BV: masked; Bool: 0/1; Int: as int64)
	Name string // var name / UF name
	X    int    // extract/extend params
	Y    int
}

var idCtr int64

func nid() int64 { return atomic.AddInt64(&idCtr, 1) }

// hash-consing: structurally equal terms are the same object (and have the same ID).
var (
	internMu  sync.Mutex
	internTab = map[string]*Term{}
)

func intern(t *Term) *Term {
	var sb strings.Builder
	sb.WriteString(t.Op)
	sb.WriteByte('|')
	sb.WriteString(strconv.Itoa(int(t.S)))
	sb.WriteByte('|')
	sb.WriteString(strconv.FormatUint(t.C, 16))
	sb.WriteByte('|')
	sb.WriteString(t.Name)
	sb.WriteByte('|')
	sb.WriteString(strconv.Itoa(t.X))
	sb.WriteByte(',')
	sb.WriteString(strconv.Itoa(t.Y))
	for _, a := range t.Args {
		sb.WriteByte('|')
		sb.WriteString(strconv.FormatInt(a.ID, 36))
	}
	k := sb.String()
	internMu.Lock()
	defer internMu.Unlock()
	if o, ok := internTab[k]; ok {
		return o
	}
	t.ID = nid()
	internTab[k] = t
	return t
}

func mask(w Sort) uint64 {
	if w >= 64 {
		return ^uint64(0)
	}
	return (uint64(1) << uint(w)) - 1
}

func (t *Term) IsConst() bool { return t.Op == "const" }
func (t *Term) IsTrue() bool  { return t.Op == "const" && t.S == Bool && t.C == 1 }
func (t *Term) IsFalse() bool { return t.Op == "const" && t.S == Bool && t.C == 0 }

// Signed value of a constant BV
func (t *Term) SVal() int64 {
	if t.S == Int {
		return int64(t.C)
	}
	w := uint(t.S)
	if w >= 64 {
		return int64(t.C)
	}
	if t.C&(1<<(w-1)) != 0 {
		return int64(t.C | ^mask(t.S))
	}
	return int64(t.C)
}

var (
	True  = intern(&Term{Op: "const", S: Bool, C: 1})
	False = intern(&Term{Op: "const", S: Bool, C: 0})
)

func BoolC(b bool) *Term {
	if b {
		return True
	}
	return False
}

func BV(v uint64, w int) *Term {
	return intern(&Term{Op: "const", S: Sort(w), C: v & mask(Sort(w))})
}
func BVs(v int64, w int) *Term { return BV(uint64(v), w) }
func IntC(v int64) *Term       { return intern(&Term{Op: "const", S: Int, C: uint64(v)}) }

func Var(name string, s Sort) *Term { return intern(&Term{Op: "var", S: s, Name: name}) }

// UF application; fn declared by the solver layer from Name + arg sorts.
func App(fn string, ret Sort, args ...*Term) *Term {
	return intern(&Term{Op: "app", Name: fn, S: ret, Args: args})
}

func mk(op string, s Sort, args ...*Term) *Term {
	return intern(&Term{Op: op, S: s, Args: args})
}

func Same(a, b *Term) bool {
	if a == b {
		return true
	}
	if a.Op == "const" && b.Op == "const" && a.S == b.S && a.C == b.C {
		return true
	}
	if a.Op == "var" && b.Op == "var" && a.Name == b.Name {
		return true
	}
	return false
}

func Not(a *Term) *Term {
	if a.IsConst() {
		return BoolC(a.C == 0)
	}
	if a.Op == "not" {
		return a.Args[0]
	}
	return mk("not", Bool, a)
}

func And(as ...*Term) *Term {
	var out []*Term
	for _, a := range as {
		if a.IsFalse() {
			return False
		}
		if a.IsTrue() {
			continue
		}
		if a.Op == "and" {
			out = append(out, a.Args...)
			continue
		}
		out = append(out, a)
	}
	if len(out) == 0 {
		return True
	}
	if len(out) == 1 {
		return out[0]
	}
	return mk("and", Bool, out...)
}

func Or(as ...*Term) *Term {
	var out []*Term
	for _, a := range as {
		if a.IsTrue() {
			return True
		}
		if a.IsFalse() {
			continue
		}
		if a.Op == "or" {
			out = append(out, a.Args...)
			continue
		}
		out = append(out, a)
	}
	if len(out) == 0 {
		return False
	}
	if len(out) == 1 {
		return out[0]
	}
	return mk("or", Bool, out...)
}

func Implies(a, b *Term) *Term { return Or(Not(a), b) }

func Ite(c, a, b *Term) *Term {
	if c.IsTrue() {
		return a
	}
	if c.IsFalse() {
		return b
	}
	if Same(a, b) {
		return a
	}
	if a.S == Bool {
		if a.IsTrue() && b.IsFalse() {
			return c
		}
		if a.IsFalse() && b.IsTrue() {
			return Not(c)
		}
	}
	return mk("ite", a.S, c, a, b)
}

func Eq(a, b *Term) *Term {
	if a.S != b.S {
		panic(fmt.Sprintf("Eq sort mismatch %v %v: %s vs %s", a.S, b.S, a, b))
	}
	if a.IsConst() && b.IsConst() {
		return BoolC(a.C == b.C)
	}
	if Same(a, b) {
		return True
	}
	if a.S == Bool {
		if a.IsTrue() {
			return b
		}
		if b.IsTrue() {
			return a
		}
		if a.IsFalse() {
			return Not(b)
		}
		if b.IsFalse() {
			return Not(a)
		}
	}
	// ite(c, k1, k2) == k  simplification
	if b.IsConst() && a.Op == "ite" && a.Args[1].IsConst() && a.Args[2].IsConst() {
		return Ite(a.Args[0], Eq(a.Args[1], b), Eq(a.Args[2], b))
	}
	if a.IsConst() && b.Op == "ite" && b.Args[1].IsConst() && b.Args[2].IsConst() {
		return Ite(b.Args[0], Eq(b.Args[1], a), Eq(b.Args[2], a))
	}
	return mk("=", Bool, a, b)
}

func Ne(a, b *Term) *Term { return Not(Eq(a, b)) }

func sameW(op string, a, b *Term) {
	if a.S != b.S {
		panic(fmt.Sprintf("%s sort mismatch %v %v: %s | %s", op, a.S, b.S, a, b))
	}
}

func Add(a, b *Term) *Term {
	sameW("add", a, b)
	if a.S == Int {
		if a.IsConst() && b.IsConst() {
			return IntC(int64(a.C) + int64(b.C))
		}
		return mk("+", Int, a, b)
	}
	if a.IsConst() && b.IsConst() {
		return BV(a.C+b.C, int(a.S))
	}
	if a.IsConst() && a.C == 0 {
		return b
	}
	if b.IsConst() && b.C == 0 {
		return a
	}
	// (x + c1) + c2
	if b.IsConst() && a.Op == "bvadd" && a.Args[1].IsConst() {
		return Add(a.Args[0], BV(a.Args[1].C+b.C, int(a.S)))
	}
	if a.IsConst() {
		return Add(b, a)
	}
	return mk("bvadd", a.S, a, b)
}

func Neg(a *Term) *Term {
	if a.IsConst() {
		return BV(-a.C, int(a.S))
	}
	return mk("bvneg", a.S, a)
}

func Sub(a, b *Term) *Term {
	sameW("sub", a, b)
	if a.S == Int {
		if a.IsConst() && b.IsConst() {
			return IntC(int64(a.C) - int64(b.C))
		}
		return mk("-", Int, a, b)
	}
	if a.IsConst() && b.IsConst() {
		return BV(a.C-b.C, int(a.S))
	}
	if b.IsConst() {
		return Add(a, BV(-b.C, int(a.S)))
	}
	if Same(a, b) {
		return BV(0, int(a.S))
	}
	return mk("bvsub", a.S, a, b)
}

func Mul(a, b *Term) *Term {
	sameW("mul", a, b)
	if a.IsConst() && b.IsConst() {
		return BV(a.C*b.C, int(a.S))
	}
	if a.IsConst() && a.C == 1 {
		return b
	}
	if b.IsConst() && b.C == 1 {
		return a
	}
	if (a.IsConst() && a.C == 0) || (b.IsConst() && b.C == 0) {
		return BV(0, int(a.S))
	}
	return mk("bvmul", a.S, a, b)
}

func binBV(op string, a, b *Term, f func(x, y uint64) (uint64, bool)) *Term {
	sameW(op, a, b)
	if a.IsConst() && b.IsConst() && f != nil {
		if v, ok := f(a.C, b.C); ok {
			return BV(v, int(a.S))
		}
	}
	return mk(op, a.S, a, b)
}

func BAnd(a, b *Term) *Term {
	if a.IsConst() && a.C == 0 || b.IsConst() && b.C == 0 {
		return BV(0, int(a.S))
	}
	return binBV("bvand", a, b, func(x, y uint64) (uint64, bool) { return x & y, true })
}
func BOr(a, b *Term) *Term {
	if a.IsConst() && a.C == 0 {
		return b
	}
	if b.IsConst() && b.C == 0 {
		return a
	}
	return binBV("bvor", a, b, func(x, y uint64) (uint64, bool) { return x | y, true })
}
func BXor(a, b *Term) *Term {
	return binBV("bvxor", a, b, func(x, y uint64) (uint64, bool) { return x ^ y, true })
}
func BNot(a *Term) *Term {
	if a.IsConst() {
		return BV(^a.C, int(a.S))
	}
	return mk("bvnot", a.S, a)
}
func Shl(a, b *Term) *Term {
	w := uint64(a.S)
	return binBV("bvshl", a, b, func(x, y uint64) (uint64, bool) {
		if y >= w {
			return 0, true
		}
		return x << y, true
	})
}
func LShr(a, b *Term) *Term {
	w := uint64(a.S)
	return binBV("bvlshr", a, b, func(x, y uint64) (uint64, bool) {
		if y >= w {
			return 0, true
		}
		return x >> y, true
	})
}
func AShr(a, b *Term) *Term {
	sameW("ashr", a, b)
	if a.IsConst() && b.IsConst() {
		s := a.SVal()
		sh := b.C
		if sh >= 63 {
			sh = 63
		}
		return BVs(s>>sh, int(a.S))
	}
	return mk("bvashr", a.S, a, b)
}
func UDiv(a, b *Term) *Term {
	return binBV("bvudiv", a, b, func(x, y uint64) (uint64, bool) {
		if y == 0 {
			return 0, false
		}
		return x / y, true
	})
}
func URem(a, b *Term) *Term {
	return binBV("bvurem", a, b, func(x, y uint64) (uint64, bool) {
		if y == 0 {
			return 0, false
		}
		return x % y, true
	})
}
func SDiv(a, b *Term) *Term {
	sameW("sdiv", a, b)
	if a.IsConst() && b.IsConst() && b.C != 0 {
		return BVs(a.SVal()/b.SVal(), int(a.S))
	}
	return mk("bvsdiv", a.S, a, b)
}
func SRem(a, b *Term) *Term {
	sameW("srem", a, b)
	if a.IsConst() && b.IsConst() && b.C != 0 {
		return BVs(a.SVal()%b.SVal(), int(a.S))
	}
	return mk("bvsrem", a.S, a, b)
}

func cmp(op string, a, b *Term, f func(a, b *Term) bool) *Term {
	sameW(op, a, b)
	if a.IsConst() && b.IsConst() {
		return BoolC(f(a, b))
	}
	return mk(op, Bool, a, b)
}

func ULt(a, b *Term) *Term {
	if Same(a, b) {
		return False
	}
	return cmp("bvult", a, b, func(a, b *Term) bool { return a.C < b.C })
}
func ULe(a, b *Term) *Term {
	if Same(a, b) {
		return True
	}
	return cmp("bvule", a, b, func(a, b *Term) bool { return a.C <= b.C })
}
func SLt(a, b *Term) *Term {
	if Same(a, b) {
		return False
	}
	return cmp("bvslt", a, b, func(a, b *Term) bool { return a.SVal() < b.SVal() })
}
func SLe(a, b *Term) *Term {
	if Same(a, b) {
		return True
	}
	return cmp("bvsle", a, b, func(a, b *Term) bool { return a.SVal() <= b.SVal() })
}

// Int comparisons
func ILt(a, b *Term) *Term {
	if a.IsConst() && b.IsConst() {
		return BoolC(int64(a.C) < int64(b.C))
	}
	return mk("<", Bool, a, b)
}
func ILe(a, b *Term) *Term {
	if a.IsConst() && b.IsConst() {
		return BoolC(int64(a.C) <= int64(b.C))
	}
	return mk("<=", Bool, a, b)
}

func Extract(hi, lo int, a *Term) *Term {
	w := hi - lo + 1
	if a.IsConst() {
		return BV(a.C>>uint(lo), w)
	}
	if lo == 0 && w == int(a.S) {
		return a
	}
	// extract of zero/sign extend back to original
	if lo == 0 && (a.Op == "zext" || a.Op == "sext") && int(a.Args[0].S) == w {
		return a.Args[0]
	}
	return intern(&Term{Op: "extract", S: Sort(w), Args: []*Term{a}, X: hi, Y: lo})
}

func ZExt(a *Term, to int) *Term {
	if int(a.S) == to {
		return a
	}
	if int(a.S) > to {
		return Extract(to-1, 0, a)
	}
	if a.IsConst() {
		return BV(a.C, to)
	}
	return intern(&Term{Op: "zext", S: Sort(to), Args: []*Term{a}, X: to - int(a.S)})
}

func SExt(a *Term, to int) *Term {
	if int(a.S) == to {
		return a
	}
	if int(a.S) > to {
		return Extract(to-1, 0, a)
	}
	if a.IsConst() {
		return BVs(a.SVal(), to)
	}
	return intern(&Term{Op: "sext", S: Sort(to), Args: []*Term{a}, X: to - int(a.S)})
}

func Distinct(as ...*Term) *Term {
	if len(as) < 2 {
		return True
	}
	return mk("distinct", Bool, as...)
}

// ---------------------------------------------------------------- printing

func constStr(t *Term) string {
	switch {
	case t.S == Bool:
		if t.C == 1 {
			return "true"
		}
		return "false"
	case t.S == Int:
		v := int64(t.C)
		if v < 0 {
			return fmt.Sprintf("(- %d)", -v)
		}
		return fmt.Sprintf("%d", v)
	}
	w := int(t.S)
	if w%4 == 0 {
		return fmt.Sprintf("#x%0*x", w/4, t.C)
	}
	return fmt.Sprintf("#b%0*b", w, t.C)
}

func (t *Term) String() string {
	var sb strings.Builder
	p := &Printer{names: map[int64]string{}}
	p.write(&sb, t, 0)
	return sb.String()
}

// Printer prints a set of assertions sharing common sub-terms through define-fun.
type Printer struct {
	names map[int64]string
	Decls map[string]string // var/UF name -> declaration line
	defs  []string
	cnt   map[int64]int
	n     int
}

func NewPrinter() *Printer {
	return &Printer{names: map[int64]string{}, Decls: map[string]string{}, cnt: map[int64]int{}}
}

func (p *Printer) count(t *Term) {
	p.cnt[t.ID]++
	if p.cnt[t.ID] > 1 {
		return
	}
	for _, a := range t.Args {
		p.count(a)
	}
}

func (p *Printer) write(sb *strings.Builder, t *Term, depth int) {
	if n, ok := p.names[t.ID]; ok {
		sb.WriteString(n)
		return
	}
	switch t.Op {
	case "const":
		sb.WriteString(constStr(t))
		return
	case "var":
		if p.Decls != nil {
			if _, ok := p.Decls[t.Name]; !ok {
				p.Decls[t.Name] = fmt.Sprintf("(declare-fun %s () %s)", t.Name, t.S)
			}
		}
		sb.WriteString(t.Name)
		return
	case "app":
		if p.Decls != nil {
			if _, ok := p.Decls[t.Name]; !ok {
				var as []string
				for _, a := range t.Args {
					as = append(as, a.S.String())
				}
				p.Decls[t.Name] = fmt.Sprintf("(declare-fun %s (%s) %s)", t.Name, strings.Join(as, " "), t.S)
			}
		}
		sb.WriteString("(" + t.Name)
	case "extract":
		fmt.Fprintf(sb, "((_ extract %d %d)", t.X, t.Y)
	case "zext":
		fmt.Fprintf(sb, "((_ zero_extend %d)", t.X)
	case "sext":
		fmt.Fprintf(sb, "((_ sign_extend %d)", t.X)
	default:
		sb.WriteString("(" + t.Op)
	}
	for _, a := range t.Args {
		sb.WriteByte(' ')
		p.write(sb, a, depth+1)
	}
	sb.WriteByte(')')
}

// define shared subterms bottom-up
func (p *Printer) define(t *Term) {
	if _, ok := p.names[t.ID]; ok {
		return
	}
	if len(t.Args) == 0 {
		return
	}
	for _, a := range t.Args {
		p.define(a)
	}
	if p.cnt[t.ID] > 1 {
		var sb strings.Builder
		p.write(&sb, t, 0)
		p.n++
		name := fmt.Sprintf("s!%d", p.n)
		p.defs = append(p.defs, fmt.Sprintf("(define-fun %s () %s %s)", name, t.S, sb.String()))
		p.names[t.ID] = name
	}
}

// Render returns (declarations sorted, body lines: define-funs + asserts).
func Render(asserts []*Term) (decls []string, body []string) {
	p := NewPrinter()
	for _, a := range asserts {
		p.count(a)
	}
	var lines []string
	for _, a := range asserts {
		p.define(a)
		var sb strings.Builder
		p.write(&sb, a, 0)
		lines = append(lines, "(assert "+sb.String()+")")
	}
	// defs were appended in dependency order, but interleaved with asserts is fine:
	body = append(body, p.defs...)
	body = append(body, lines...)
	for _, d := range p.Decls {
		decls = append(decls, d)
	}
	sort.Strings(decls)
	return
}

// CollectVars lists the free variables of the terms.
func CollectVars(ts []*Term) []*Term {
	seen := map[int64]bool{}
	names := map[string]*Term{}
	var walk func(t *Term)
	walk = func(t *Term) {
		if seen[t.ID] {
			return
		}
		seen[t.ID] = true
		if t.Op == "var" {
			names[t.Name] = t
		}
		for _, a := range t.Args {
			walk(a)
		}
	}
	for _, t := range ts {
		walk(t)
	}
	var ks []string
	for k := range names {
		ks = append(ks, k)
	}
	sort.Strings(ks)
	var out []*Term
	for _, k := range ks {
		out = append(out, names[k])
	}
	return out
}

// ParseValue parses an SMT-LIB value literal (#x.., #b.., true/false, ints, (- n)).
func ParseValue(s string) (uint64, bool) {
	s = strings.TrimSpace(s)
	switch {
	case s == "true":
		return 1, true
	case s == "false":
		return 0, true
	case strings.HasPrefix(s, "#x"):
		b, ok := new(big.Int).SetString(s[2:], 16)
		if !ok {
			return 0, false
		}
		return b.Uint64(), true
	case strings.HasPrefix(s, "#b"):
		b, ok := new(big.Int).SetString(s[2:], 2)
		if !ok {
			return 0, false
		}
		return b.Uint64(), true
	case strings.HasPrefix(s, "(-"):
		in := strings.TrimSpace(strings.TrimSuffix(strings.TrimPrefix(s, "(-"), ")"))
		b, ok := new(big.Int).SetString(in, 10)
		if !ok {
			return 0, false
		}
		return uint64(-b.Int64()), true
	case strings.HasPrefix(s, "(_ bv"):
		f := strings.Fields(strings.Trim(s, "()"))
		if len(f) >= 2 {
			b, ok := new(big.Int).SetString(strings.TrimPrefix(f[1], "bv"), 10)
			if ok {
				return b.Uint64(), true
			}
		}
		return 0, false
	}
	b, ok := new(big.Int).SetString(s, 10)
	if !ok {
		return 0, false
	}
	return uint64(b.Int64()), true
}
