package smt

import (
	"fmt"
	"math/big"
	"strings"
)

// Exact translation of the linear fragment of QF_BV into linear integer arithmetic.
//
// A bit-vector term of width w is translated to an Int expression denoting its *signed*
// value; add/sub/neg get an explicit wrap-around (three-way ite), multiplication and shifts
// by constants use mod, comparisons become <, <= on the signed or unsigned value. Every
// translated construct is exact, so a Bool term and its translation are equisatisfiable.
// Atoms containing anything outside the fragment (uninterpreted byte functions, general
// bit-wise operations, non-constant multiplication) are replaced by a fresh Boolean — a
// weakening. Hence: UNSAT of the translation implies UNSAT of the original; SAT is not
// conclusive and is re-decided by the bit-vector solver. All three solvers bit-blast 64-bit
// linear arithmetic with nested min/ite in seconds where simplex answers in milliseconds.

type lia struct {
	s    *Solver
	sb   *strings.Builder
	vars map[int64][]*Term // term id -> bv vars below (memo)
}

func pow2(k int) string { return new(big.Int).Lsh(big.NewInt(1), uint(k)).String() }

func negStr(s string) string { return "(- " + s + ")" }

func intLit(v int64) string {
	if v < 0 {
		return fmt.Sprintf("(- %d)", -v)
	}
	return fmt.Sprintf("%d", v)
}

// liaName returns the name of the (already defined) translation of t.
func liaName(t *Term) string {
	if t.S == Bool {
		return fmt.Sprintf("lb!%d", t.ID)
	}
	return fmt.Sprintf("li!%d", t.ID)
}

func wrap3(e string, w int) string {
	hi := pow2(w - 1)
	m := pow2(w)
	return fmt.Sprintf("(let ((x!w %s)) (ite (>= x!w %s) (- x!w %s) (ite (< x!w (- %s)) (+ x!w %s) x!w)))", e, hi, m, hi, m)
}

func wrapMod(e string, w int) string {
	hi := pow2(w - 1)
	m := pow2(w)
	return fmt.Sprintf("(- (mod (+ %s %s) %s) %s)", e, hi, m, hi)
}

func unsignedOf(e string, w int) string {
	return fmt.Sprintf("(let ((x!u %s)) (ite (< x!u 0) (+ x!u %s) x!u))", e, pow2(w))
}

// define emits (once per solver process) the definition of t's translation and returns
// whether t is inside the exact fragment. Untranslatable Bool terms become fresh Booleans;
// untranslatable BV terms return false (their enclosing atom is weakened).
func (s *Solver) liaDefine(sb *strings.Builder, t *Term) bool {
	if ok, seen := s.liaOK[t.ID]; seen {
		return ok
	}
	ok := true
	var body string
	w := int(t.S)
	arg := func(i int) string { return liaName(t.Args[i]) }
	defArgs := func() bool {
		all := true
		for _, a := range t.Args {
			if !s.liaDefine(sb, a) {
				all = false
			}
		}
		return all
	}
	if t.S == Bool {
		switch t.Op {
		case "const":
			body = constStr(t)
		case "var":
			d := "lia:" + t.Name
			if !s.declared[d] {
				s.declared[d] = true
				fmt.Fprintf(sb, "(declare-fun %s () Bool)\n", t.Name)
			}
			body = t.Name
		case "not", "and", "or", "ite":
			if t.Op == "ite" {
				// Bool ite: condition and branches are Bool
			}
			for _, a := range t.Args {
				s.liaDefine(sb, a) // Bool children are always defined (possibly weakened)
			}
			parts := []string{}
			for i := range t.Args {
				parts = append(parts, arg(i))
			}
			body = "(" + t.Op + " " + strings.Join(parts, " ") + ")"
		case "=", "distinct":
			if t.Args[0].S == Bool {
				for _, a := range t.Args {
					s.liaDefine(sb, a)
				}
				parts := []string{}
				for i := range t.Args {
					parts = append(parts, arg(i))
				}
				body = "(" + t.Op + " " + strings.Join(parts, " ") + ")"
			} else if defArgs() {
				parts := []string{}
				for i := range t.Args {
					parts = append(parts, arg(i))
				}
				body = "(" + t.Op + " " + strings.Join(parts, " ") + ")"
			} else {
				ok = false
			}
		case "bvslt", "bvsle":
			if defArgs() {
				op := "<"
				if t.Op == "bvsle" {
					op = "<="
				}
				body = fmt.Sprintf("(%s %s %s)", op, arg(0), arg(1))
			} else {
				ok = false
			}
		case "bvult", "bvule":
			if defArgs() {
				op := "<"
				if t.Op == "bvule" {
					op = "<="
				}
				aw := int(t.Args[0].S)
				body = fmt.Sprintf("(%s %s %s)", op, unsignedOf(arg(0), aw), unsignedOf(arg(1), aw))
			} else {
				ok = false
			}
		case "<", "<=":
			ok = false
		default:
			ok = false
		}
		if !ok {
			// weaken: fresh Boolean standing for this atom
			fmt.Fprintf(sb, "(declare-fun lw!%d () Bool)\n", t.ID)
			body = fmt.Sprintf("lw!%d", t.ID)
			s.liaWeak++
		}
		fmt.Fprintf(sb, "(define-fun %s () Bool %s)\n", liaName(t), body)
		s.liaOK[t.ID] = true
		return true
	}
	if t.S == Int {
		s.liaOK[t.ID] = false
		return false
	}
	switch t.Op {
	case "const":
		body = intLit(t.SVal())
	case "var":
		d := "lia:" + t.Name
		if !s.declared[d] {
			s.declared[d] = true
			fmt.Fprintf(sb, "(declare-fun %s!i () Int)\n", t.Name)
		}
		// the range constraint is asserted alongside every assertion using the variable
		body = t.Name + "!i"
	case "bvadd", "bvsub":
		if defArgs() {
			op := "+"
			if t.Op == "bvsub" {
				op = "-"
			}
			body = wrap3(fmt.Sprintf("(%s %s %s)", op, arg(0), arg(1)), w)
		} else {
			ok = false
		}
	case "bvneg":
		if defArgs() {
			body = wrap3(negStr(arg(0)), w)
		} else {
			ok = false
		}
	case "bvnot":
		if defArgs() {
			body = fmt.Sprintf("(- (- %s) 1)", arg(0))
		} else {
			ok = false
		}
	case "bvmul":
		if !defArgs() {
			ok = false
		} else if t.Args[0].IsConst() {
			body = wrapMod(fmt.Sprintf("(* %s %s)", intLit(t.Args[0].SVal()), arg(1)), w)
		} else if t.Args[1].IsConst() {
			body = wrapMod(fmt.Sprintf("(* %s %s)", intLit(t.Args[1].SVal()), arg(0)), w)
		} else {
			ok = false
		}
	case "bvshl":
		if defArgs() && t.Args[1].IsConst() && t.Args[1].C < uint64(w) {
			body = wrapMod(fmt.Sprintf("(* %s %s)", pow2(int(t.Args[1].C)), arg(0)), w)
		} else {
			ok = false
		}
	case "bvlshr":
		if defArgs() && t.Args[1].IsConst() && t.Args[1].C < uint64(w) && t.Args[1].C >= 1 {
			body = fmt.Sprintf("(div %s %s)", unsignedOf(arg(0), w), pow2(int(t.Args[1].C)))
		} else {
			ok = false
		}
	case "bvashr":
		if defArgs() && t.Args[1].IsConst() && t.Args[1].C < uint64(w) {
			body = fmt.Sprintf("(div %s %s)", arg(0), pow2(int(t.Args[1].C)))
		} else {
			ok = false
		}
	case "bvand":
		// x & (2^k - 1)
		var m, x *Term
		if t.Args[1].IsConst() {
			m, x = t.Args[1], t.Args[0]
		} else if t.Args[0].IsConst() {
			m, x = t.Args[0], t.Args[1]
		}
		k := -1
		if m != nil {
			for i := 1; i < w; i++ {
				if m.C == (uint64(1)<<uint(i))-1 {
					k = i
				}
			}
		}
		if k > 0 && s.liaDefine(sb, x) {
			body = fmt.Sprintf("(mod %s %s)", liaName(x), pow2(k))
		} else {
			ok = false
		}
	case "ite":
		s.liaDefine(sb, t.Args[0])
		a1 := s.liaDefine(sb, t.Args[1])
		a2 := s.liaDefine(sb, t.Args[2])
		if a1 && a2 {
			body = fmt.Sprintf("(ite %s %s %s)", arg(0), arg(1), arg(2))
		} else {
			ok = false
		}
	case "zext":
		if defArgs() {
			body = unsignedOf(arg(0), int(t.Args[0].S))
		} else {
			ok = false
		}
	case "sext":
		if defArgs() {
			body = arg(0)
		} else {
			ok = false
		}
	case "extract":
		if t.Y == 0 && defArgs() {
			body = wrapMod(arg(0), w)
		} else {
			ok = false
		}
	default:
		ok = false
	}
	s.liaOK[t.ID] = ok
	if ok {
		fmt.Fprintf(sb, "(define-fun %s () Int %s)\n", liaName(t), body)
	}
	return ok
}


// liaEmit defines t and returns the assertion text: translation plus range constraints of
// the variables not yet constrained on the current stack.
func (s *Solver) liaEmit(sb *strings.Builder, t *Term, depth int) string {
	s.liaDefine(sb, t)
	parts := []string{liaName(t)}
	for _, v := range s.varsOf(t) {
		if v.S == Bool || v.S == Int {
			continue
		}
		if d, ok := s.liaRanged[v.Name]; ok && d <= depth {
			continue
		}
		s.liaRanged[v.Name] = depth
		w := int(v.S)
		parts = append(parts, fmt.Sprintf("(<= (- %s) %s!i)", pow2(w-1), v.Name), fmt.Sprintf("(< %s!i %s)", v.Name, pow2(w-1)))
	}
	if len(parts) == 1 {
		return parts[0]
	}
	return "(and " + strings.Join(parts, " ") + ")"
}

func (s *Solver) varsOf(t *Term) []*Term {
	if v, ok := s.varMemo[t.ID]; ok {
		return v
	}
	seen := map[string]bool{}
	var out []*Term
	if t.Op == "var" {
		out = []*Term{t}
	} else {
		for _, a := range t.Args {
			for _, v := range s.varsOf(a) {
				if !seen[v.Name] {
					seen[v.Name] = true
					out = append(out, v)
				}
			}
		}
	}
	s.varMemo[t.ID] = out
	return out
}
