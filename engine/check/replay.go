package check

import (
	"encoding/json"
	"fmt"
	"os"
	"os/exec"
	"path/filepath"
	"sort"
	"strings"
	"time"

	"verif/engine/smt"
	"verif/engine/sym"
)

type ReplayVal struct {
	Name string `json:"name"`
	Val  int64  `json:"val"`
}

type ReplayFile struct {
	Property string      `json:"property"`
	Harness  string      `json:"harness"`
	HasParam bool        `json:"has_param"`
	Param    int         `json:"param"`
	Mode     string      `json:"mode"` // violation | witness
	Label    string      `json:"label"`
	Pos      string      `json:"pos"`
	Msg      string      `json:"msg"`
	Values   []ReplayVal `json:"values"`
	Log      []string    `json:"log,omitempty"`
	History  string      `json:"history,omitempty"`
	Pkg      string      `json:"pkg"`
}

func nondetValues(nd []sym.Nondet, model map[string]uint64) []ReplayVal {
	var out []ReplayVal
	for _, n := range nd {
		if n.Stub {
			continue
		}
		v := model[n.T.Name]
		var sv int64
		switch int(n.T.S) {
		case 0:
			sv = int64(v & 1)
		case 8:
			sv = int64(v & 0xff)
		case 32:
			sv = int64(int32(uint32(v)))
		default:
			sv = int64(v)
		}
		out = append(out, ReplayVal{Name: n.Name, Val: sv})
	}
	return out
}

func pkgOf(j Job) string {
	if j.H.Fn.Pkg != nil && strings.HasSuffix(j.H.Fn.Pkg.Pkg.Path(), "/mux") {
		return "mux"
	}
	return "netpoll"
}

func writeReplay(prop, name string, j Job, v sym.Violation) string {
	dir := filepath.Join(VerifDir, "replays", prop)
	os.MkdirAll(dir, 0o755)
	rf := ReplayFile{Property: prop, Harness: j.H.Name, HasParam: j.H.HasParam, Param: j.Param, Mode: "violation",
		Label: v.Label, Pos: v.Pos, Msg: v.Msg, Values: nondetValues(v.Nondets, v.Model), Pkg: pkgOf(j), History: v.History}
	for _, l := range v.Log {
		s := l.Tag
		for _, t := range l.Vals {
			s += " " + t.String()
		}
		rf.Log = append(rf.Log, s)
	}
	b, _ := json.MarshalIndent(rf, "", " ")
	fn := filepath.Join(dir, sanitizeFile(name+"_"+v.Label)+".json")
	os.WriteFile(fn, b, 0o644)
	return fn
}

func sanitizeFile(s string) string {
	var b strings.Builder
	for _, c := range s {
		if (c >= 'a' && c <= 'z') || (c >= 'A' && c <= 'Z') || (c >= '0' && c <= '9') || c == '_' || c == '-' {
			b.WriteRune(c)
		} else {
			b.WriteByte('_')
		}
	}
	r := b.String()
	if len(r) > 120 {
		r = r[:120]
	}
	return r
}

// buildReplayDir prepares the overlay (harness files + generated registry test) in a temp dir.
func buildReplayDir(ld *Loaded, pkg string) (string, string, error) {
	tmp, err := os.MkdirTemp("", "verif-replay-")
	if err != nil {
		return "", "", err
	}
	virtDir := RepoDir
	if pkg == "mux" {
		virtDir = filepath.Join(RepoDir, "mux")
	}
	repl := map[string]string{}
	for _, f := range ld.Files {
		if filepath.Base(filepath.Dir(f)) != pkg {
			continue
		}
		repl[filepath.Join(virtDir, "zz_verif_"+filepath.Base(f))] = f
	}
	var plain, param []string
	for _, h := range ld.Harnesses {
		p := "netpoll"
		if h.Fn.Pkg != nil && strings.HasSuffix(h.Fn.Pkg.Pkg.Path(), "/mux") {
			p = "mux"
		}
		if p != pkg {
			continue
		}
		if h.HasParam {
			param = append(param, h.Name)
		} else {
			plain = append(plain, h.Name)
		}
	}
	sort.Strings(plain)
	sort.Strings(param)
	var sb strings.Builder
	pk := "netpoll"
	if pkg == "mux" {
		pk = "mux"
	}
	sb.WriteString("package " + pk + "\n\nimport \"testing\"\n\nfunc TestVerifReplay(t *testing.T) {\n\tverifReplayMain(t, map[string]func(){\n")
	for _, n := range plain {
		fmt.Fprintf(&sb, "\t\t%q: %s,\n", n, n)
	}
	sb.WriteString("\t}, map[string]func(int){\n")
	for _, n := range param {
		fmt.Fprintf(&sb, "\t\t%q: %s,\n", n, n)
	}
	sb.WriteString("\t})\n}\n")
	reg := filepath.Join(tmp, "registry_test.go")
	os.WriteFile(reg, []byte(sb.String()), 0o644)
	repl[filepath.Join(virtDir, "zz_verif_registry_test.go")] = reg
	ov, _ := json.Marshal(map[string]interface{}{"Replace": repl})
	ovf := filepath.Join(tmp, "overlay.json")
	os.WriteFile(ovf, ov, 0o644)
	return tmp, ovf, nil
}

func runNative(ld *Loaded, pkg string, replayJSON string) (string, error) {
	tmp, ovf, err := buildReplayDir(ld, pkg)
	if err != nil {
		return "", err
	}
	defer os.RemoveAll(tmp)
	target := "."
	if pkg == "mux" {
		target = "./mux"
	}
	cmd := exec.Command("go", "test", "-tags=verif", "-vet=off", "-count=1", "-v", "-run", "^TestVerifReplay$", "-timeout", "120s", "-overlay", ovf, target)
	cmd.Dir = RepoDir
	cmd.Env = append(os.Environ(), "GOFLAGS=-mod=mod", "GOPROXY=off", "GOSUMDB=off", "GOTOOLCHAIN=local", "VERIF_REPLAY="+replayJSON)
	done := make(chan struct{})
	var out []byte
	go func() { out, err = cmd.CombinedOutput(); close(done) }()
	select {
	case <-done:
	case <-time.After(180 * time.Second):
		if cmd.Process != nil {
			cmd.Process.Kill()
		}
		<-done
	}
	return string(out), nil
}

// NativeReplay runs the harness natively with the solver's values; reproduced = the same
// assertion label fails (or, for label "panic", the run panics).
func NativeReplay(ld *Loaded, j Job, v sym.Violation, replayPath string) (bool, string) {
	out, err := runNative(ld, pkgOf(j), replayPath)
	if err != nil {
		return false, err.Error()
	}
	os.WriteFile(strings.TrimSuffix(replayPath, ".json")+".native.txt", []byte(out), 0o644)
	for _, l := range strings.Split(out, "\n") {
		if strings.HasPrefix(l, "VERIF-REPLAY-RESULT:") {
			if v.Label == "panic" {
				return strings.Contains(l, " panic=true"), l
			}
			for _, lb := range append([]string{v.Label}, nativeAliases[v.Label]...) {
				if strings.Contains(l, "["+lb+"]") {
					return true, l
				}
			}
			return false, l
		}
	}
	return false, out
}

func NativeWitness(ld *Loaded, j Job, label string, nd []sym.Nondet, model map[string]uint64) (bool, string) {
	tmp, err := os.MkdirTemp("", "verif-wit-")
	if err != nil {
		return false, err.Error()
	}
	defer os.RemoveAll(tmp)
	rf := ReplayFile{Harness: j.H.Name, HasParam: j.H.HasParam, Param: j.Param, Mode: "witness", Label: label,
		Values: nondetValues(nd, model), Pkg: pkgOf(j)}
	b, _ := json.Marshal(rf)
	p := filepath.Join(tmp, "w.json")
	os.WriteFile(p, b, 0o644)
	out, err := runNative(ld, pkgOf(j), p)
	if err != nil {
		return false, err.Error()
	}
	for _, l := range strings.Split(out, "\n") {
		if strings.HasPrefix(l, "VERIF-REPLAY-RESULT:") {
			return strings.Contains(l, "reached=") && strings.Contains(l, "<"+label+">") && !strings.Contains(l, " panic=true") && strings.Contains(l, " failed=[]"), l
		}
	}
	return false, out
}


// nativeAliases: ledger assertions live in allocator stubs that are not installed in the
// native build; their native manifestation is a damaged lease or a damaged Slice reader after
// the pool has been scribbled over.
var nativeAliases = map[string][]string{
	"C02/free-while-leased":                      {"C02/lease-content-changed", "C01/drain-slice-bytes"},
	"C02/free-while-slice-reader-shares-block":   {"C02/lease-content-changed", "C01/drain-slice-bytes"},
	"C02/result-in-freed-block":                  {"C02/lease-content-changed", "C01/drain-slice-bytes"},
	"C02/lease-block-freed":                      {"C02/lease-content-changed"},
	"C03/free-before-every-reader-released":      {"C02/lease-content-changed", "C01/drain-slice-bytes"},
	"C03/double-free":                            {"C02/lease-content-changed"},
}


// InterpReplay re-executes the harness in the interpreter with every nondeterministic draw
// (harness and stub draws alike) fixed to the solver's value, so the run is concrete, and
// reports whether the same assertion fails. Used for harnesses whose environment stubs
// (kernel, timers) cannot be installed in the natively compiled package.
func InterpReplay(ld *Loaded, base *sym.State, j Job, v sym.Violation, prop string) (bool, string) {
	s, err := smt.NewSolver("z3-new", 20000)
	if err != nil {
		return false, err.Error()
	}
	defer s.Close()
	r := sym.NewRun(ld.Eng, s, "replay:"+j.Name())
	r.Prop = prop
	r.Relabel = j.H.Relabel
	if j.H.Loop > 0 {
		r.LoopBound = j.H.Loop
	}
	r.BlockIsViolation = j.H.NoBlock
	for _, n := range v.Nondets {
		var val uint64
		if n.T.IsConst() {
			val = n.T.C
		} else {
			val = v.Model[n.T.Name]
		}
		r.ReplayVals = append(r.ReplayVals, val)
	}
	if r.ReplayVals == nil {
		r.ReplayVals = []uint64{}
	}
	st := base.Fork()
	var args []sym.Value
	if j.H.HasParam {
		args = []sym.Value{smt.BVs(int64(j.Param), 64)}
	}
	r.Explore(st, j.H.Fn, args)
	for _, rv := range r.Violations {
		if rv.Label == v.Label {
			return true, fmt.Sprintf("concrete re-execution: %d path(s), assertion %s fails again", r.Paths, v.Label)
		}
	}
	return false, fmt.Sprintf("concrete re-execution: %d path(s), %d violations, none with label %s", r.Paths, len(r.Violations), v.Label)
}
