package check

import (
	"encoding/json"
	"fmt"
	"os"
	"path/filepath"
	"regexp"
	"runtime/debug"
	"sort"
	"strings"
	"sync"
	"time"

	"golang.org/x/tools/go/ssa"
	"golang.org/x/tools/go/ssa/ssautil"

	"verif/engine/smt"
	"verif/engine/sym"
)

type Job struct {
	H     *HarnessInfo
	Param int
}

func (j Job) Name() string {
	if j.H.HasParam {
		return fmt.Sprintf("%s[%d]", j.H.Name, j.Param)
	}
	return j.H.Name
}

type JobResult struct {
	Job         Job
	Paths       int
	Ends        map[sym.EndKind]int
	EndMsgs     map[string]int
	Obligations int
	Discharged  int
	Unknown     int
	Feas        int
	Violations  []sym.Violation
	Reach       map[string]bool
	ReachNondets map[string][]sym.Nondet
	ReachModels map[string]map[string]uint64
	Notes       []string
	Samples     []string
	SolverTime  time.Duration
	Queries     int
	LIAUnsat    int
	LIAQueries  int
	LIATime     time.Duration
	PO          []POOutcome
	KnownHits   []string
	Wall        time.Duration
	Err         string
}

type Options struct {
	Prop      string
	Tier      string
	Groups    []string
	Workers   int
	TimeoutMs int
	Only      string // substring filter on harness name
	Debug     bool
	Solver    string
	NoReplay  bool
	Verbose   bool
	PLo, PHi  int
	PSet      bool
	NoEvidence bool // do not rewrite evidence/<prop>.json (replay command)
}

// initState runs the package initialisers of netpoll and mux once.
func initState(ld *Loaded) (*sym.State, []string, error) {
	n := 0
	st := &sym.State{Eng: ld.Eng, Heap: sym.NewHeap(), NextID: &n, Globals: map[*ssa.Global]int{}, Ghost: map[string]sym.Value{}, Cover: map[string]bool{}}
	s, err := smt.NewSolver("z3", 10000)
	if err != nil {
		return nil, nil, err
	}
	defer s.Close()
	var notes []string
	var order []*ssa.Package
	for _, path := range []string{"io", "context"} {
		if p := ld.Prog.ImportedPackage(path); p != nil {
			order = append(order, p)
		}
	}
	nExtra := len(order)
	order = append(order, ld.Pkgs...)
	for pi, p := range order {
		initFn := p.Func("init")
		if initFn == nil {
			continue
		}
		r := sym.NewRun(ld.Eng, s, "init:"+p.Pkg.Path())
		r.PanicIsViolation = false
		var endSt *sym.State
		r.OnEnd = func(e sym.End) {
			if e.Kind == sym.EndReturn {
				endSt = e.St
			} else {
				notes = append(notes, fmt.Sprintf("init %s: %s %s", p.Pkg.Path(), e.Kind, e.Msg))
			}
		}
		ld.Eng.InitTarget = p.Pkg.Path()
		r.Explore(st, initFn, nil)
		if endSt == nil {
			if pi < nExtra {
				notes = append(notes, "init of "+p.Pkg.Path()+" skipped (did not complete)")
				st.Frames = nil
				continue
			}
			return nil, notes, fmt.Errorf("init of %s did not complete: %v", p.Pkg.Path(), notes)
		}
		st = endSt
		st.Frames = nil
	}
	ld.Eng.InitTarget = ""
	return st, notes, nil
}

func runJob(ld *Loaded, base *sym.State, j Job, opt Options) JobResult {
	t0 := time.Now()
	res := JobResult{Job: j}
	kind := opt.Solver
	if kind == "" {
		kind = "z3-new"
	}
	s, err := smt.NewSolver(kind, opt.TimeoutMs)
	if err != nil {
		res.Err = err.Error()
		return res
	}
	defer s.Close()
	if lp := os.Getenv("VERIF_SMTLOG"); lp != "" {
		if f, err := os.Create(lp + "." + sanitizeFile(j.Name()) + ".smt2"); err == nil {
			s.Log = f
			defer f.Close()
		}
	}
	r := sym.NewRun(ld.Eng, s, j.Name())
	if os.Getenv("VERIF_NOLIA") == "" {
		if ls, err := smt.NewSolver("z3-new", 3000); err == nil {
			ls.LIA = true
			r.LIA = ls
			defer ls.Close()
			if lp := os.Getenv("VERIF_SMTLOG"); lp != "" {
				if f, err := os.Create(lp + "." + sanitizeFile(j.Name()) + ".lia.smt2"); err == nil {
					ls.Log = f
					defer f.Close()
				}
			}
		}
	}
	if j.H.Loop > 0 {
		r.LoopBound = j.H.Loop
	}
	r.Prop = opt.Prop
	r.Relabel = j.H.Relabel
	r.BlockIsViolation = j.H.NoBlock && j.H.Prop == opt.Prop
	if j.H.NoPanicCheck || j.H.Prop != opt.Prop {
		r.PanicIsViolation = false
	}
	st := base.Fork()
	var args []sym.Value
	if j.H.HasParam {
		args = []sym.Value{smt.BVs(int64(j.Param), 64)}
	}
	var poStates []*sym.State
	if j.H.PO {
		r.OnEnd = func(e sym.End) {
			if e.Kind == sym.EndReturn && len(e.St.POThreads) > 0 {
				poStates = append(poStates, e.St)
			}
		}
	}
	func() {
		defer func() {
			if e := recover(); e != nil {
				res.Err = fmt.Sprintf("engine panic: %v\n%s", e, debug.Stack())
				if opt.Debug {
					panic(e)
				}
			}
		}()
		r.Explore(st, j.H.Fn, args)
		for i, ps := range poStates {
			r.PanicIsViolation = false
			out := runPO(ld, r, ps, j, opt, i)
			res.PO = append(res.PO, out)
		}
	}()
	for _, out := range res.PO {
		res.Paths += out.Events
		for _, u := range out.Unsupp {
			r.EndMsgs["unknown: "+u]++
		}
		for _, q := range out.Results {
			switch {
			case strings.HasPrefix(q.Name, "witness"):
				if q.Res == smt.Sat {
					r.ReachHit[q.Name] = true
				} else {
					r.Notes = append(r.Notes, fmt.Sprintf("PO scenario %d: %s is %s (vacuity guard)", out.Scenario, q.Name, q.Res))
				}
			case q.Name == "unwinding":
				if q.Res != smt.Unsat {
					r.Notes = append(r.Notes, fmt.Sprintf("PO scenario %d: an unrolling/spawn bound is reachable (%s): result is bounded by that depth", out.Scenario, q.Res))
				}
			default:
				r.Obligations++
				switch q.Res {
				case smt.Unsat:
					r.Discharged++
				case smt.Unknown:
					r.UnknownObl++
					r.Notes = append(r.Notes, fmt.Sprintf("PO scenario %d: query %s unknown/timeout", out.Scenario, q.Name))
				case smt.Sat:
					var rpOK func(label string) *bool
					rpOK = func(label string) *bool {
						if q.Replay == "" {
							return nil
						}
						b := q.Replay == "ok" && (label == "" || q.ReplayLabels[label])
						return &b
					}
					rpNote := q.Replay
					if q.Replay == "ok" {
						rpNote = "schedule replayed sequentially over one heap"
					}
					for _, rc := range q.Races {
						r.Violations = append(r.Violations, sym.Violation{Label: "C19/data-race", Msg: rc.Key(), Pos: rc.Key(), History: poTraceText(q), Replayed: rpOK(""), Stack: rpNote})
					}
					if len(q.FailedEv) == 0 && len(q.Races) == 0 {
						r.Violations = append(r.Violations, sym.Violation{Label: "po", Msg: strings.Join(q.Failed, "; "), Pos: q.Name, History: poTraceText(q)})
					}
					for _, e := range q.FailedEv {
						r.Violations = append(r.Violations, sym.Violation{Label: e.Label, Msg: e.Stack + " [" + rpNote + "]", Pos: q.Name + " " + e.Pos, History: poTraceText(q), Stack: e.Stack, Replayed: rpOK(e.Label)})
					}
				}
				for _, kw := range q.KnownHit {
					res.KnownHits = append(res.KnownHits, kw)
				}
				extra := ""
				if q.Name == "race" {
					extra = fmt.Sprintf(", %d candidate conflicting pairs (same location, different threads, >=1 write, >=1 plain access)", q.Asserts)
				}
				r.Samples = append(r.Samples, fmt.Sprintf("PO scenario %d query %s: %s by %s in %.1fs over %d events%s", out.Scenario, q.Name, q.Res, q.Solver, q.Time.Seconds(), q.Events, extra))
			}
		}
	}
	res.Paths = r.Paths
	res.Ends = r.Ends
	res.EndMsgs = r.EndMsgs
	res.Obligations = r.Obligations
	res.Discharged = r.Discharged
	res.Unknown = r.UnknownObl
	res.Feas = r.Feasibility
	res.Violations = r.Violations
	res.Reach = r.ReachHit
	res.ReachNondets = r.ReachNondets
	res.ReachModels = r.ReachModels
	res.Notes = r.Notes
	res.Samples = r.Samples
	res.SolverTime = s.Time
	res.Queries = s.Queries
	if r.LIA != nil {
		res.SolverTime += r.LIA.Time
		res.Queries += r.LIA.Queries
		res.LIAUnsat = r.LIAUnsat
		res.LIAQueries = r.LIA.Queries
		res.LIATime = r.LIA.Time
	}
	res.Wall = time.Since(t0)
	if opt.Verbose {
		for b := 0; b < 16; b++ {
			if s.Hist[b] > 0 {
				fmt.Fprintf(os.Stderr, "   hist <%dms: n=%d total=%.1fs\n", 1<<uint(b), s.Hist[b], s.HistT[b].Seconds())
			}
		}
	}
	return res
}

type Evidence struct {
	PropertyID  string                 `json:"property_id"`
	Tier        string                 `json:"tier"`
	Seed        int                    `json:"seed"`
	Level       string                 `json:"level"`
	Coverage    map[string]interface{} `json:"coverage"`
	Assumptions []string               `json:"assumptions"`
	WallS       float64                `json:"wall_s"`
	Violations  int                    `json:"violations"`
}

type KnownFinding struct {
	Property string `json:"property"`
	Status   string `json:"status"` // known | fixed
	Commit   string `json:"commit,omitempty"`
	Harness  string `json:"harness"`  // harness name prefix
	Label    string `json:"label"`    // assertion label
	Pattern  string `json:"pattern"`  // substring that must occur in the violation's position/stack/msg
	What     string `json:"what"`
}

func loadKnown() []KnownFinding {
	b, err := os.ReadFile(filepath.Join(VerifDir, "known_findings.json"))
	if err != nil {
		return nil
	}
	var k struct {
		Findings []KnownFinding `json:"findings"`
	}
	json.Unmarshal(b, &k)
	return k.Findings
}

func matchKnown(kf []KnownFinding, prop, harness string, v sym.Violation) *KnownFinding {
	for i := range kf {
		k := &kf[i]
		if k.Status != "known" || k.Property != prop {
			continue
		}
		if k.Harness != "" && !strings.HasPrefix(harness, k.Harness) {
			continue
		}
		if k.Label != "" {
			re, err := regexp.Compile("^(" + k.Label + ")$")
			if err != nil || !re.MatchString(v.Label) {
				continue
			}
		}
		if k.Pattern != "" {
			re, err := regexp.Compile(k.Pattern)
			if err != nil || !re.MatchString(v.Pos+" | "+v.Stack+" | "+v.Msg+" | "+v.History) {
				continue
			}
		}
		return k
	}
	return nil
}

// RunProperty is the entry point of `gosym check`.
func RunProperty(opt Options) int {
	t0 := time.Now()
	ld, err := Load(opt.Groups)
	if err != nil {
		fmt.Println("BROKEN load:", err)
		return 2
	}
	ld.Eng.Debug = opt.Debug
	if fnName := os.Getenv("VERIF_LIVEDUMP"); fnName != "" {
		for _, sp := range ld.Pkgs {
			for _, m := range sp.Members {
				if t, ok := m.(*ssa.Type); ok {
					_ = t
				}
			}
		}
		for fn := range ssautilAllFunctions(ld.Prog) {
			if fn.String() == fnName {
				fmt.Println(ld.Eng.DumpLive(fn))
			}
		}
	}
	base, initNotes, err := initState(ld)
	if err != nil {
		fmt.Println("BROKEN init:", err)
		return 2
	}
	var jobs []Job
	for _, h := range ld.Harnesses {
		if h.Prop != opt.Prop && !contains(h.Also, opt.Prop) {
			continue
		}
		if h.Tier == "thorough" && opt.Tier != "thorough" {
			continue
		}
		if h.Tier == "quickonly" && opt.Tier != "quick" {
			continue
		}
		if opt.Only != "" && !strings.Contains(h.Name, opt.Only) {
			continue
		}
		if h.HasParam {
			for p := h.ParamLo; p <= h.ParamHi; p++ {
				if opt.PSet && (p < opt.PLo || p > opt.PHi) {
					continue
				}
				jobs = append(jobs, Job{H: h, Param: p})
			}
		} else {
			jobs = append(jobs, Job{H: h})
		}
	}
	if len(jobs) == 0 {
		fmt.Println("BROKEN: no harness for", opt.Prop)
		return 2
	}
	results := make([]JobResult, len(jobs))
	var wg sync.WaitGroup
	sem := make(chan struct{}, opt.Workers)
	for i := range jobs {
		wg.Add(1)
		go func(i int) {
			defer wg.Done()
			sem <- struct{}{}
			defer func() { <-sem }()
			j := jobs[i]
			results[i] = runJob(ld, base, j, opt)
			if opt.Verbose {
				rr := results[i]
				fmt.Fprintf(os.Stderr, "job %s: paths=%d obl=%d dis=%d unk=%d viol=%d ends=%v q=%d lia=%d/%d(%.1fs) solver=%.1fs wall=%.1fs %s\n", j.Name(), rr.Paths, rr.Obligations, rr.Discharged, rr.Unknown, len(rr.Violations), rr.Ends, rr.Queries, rr.LIAUnsat, rr.LIAQueries, rr.LIATime.Seconds(), rr.SolverTime.Seconds(), rr.Wall.Seconds(), rr.Err)
				for _, v := range rr.Violations {
					fmt.Fprintf(os.Stderr, "   VIOL %s @%s %s hist=[%s]\n", v.Label, v.Pos, v.Msg, v.History)
				}
				for k, n := range rr.EndMsgs {
					fmt.Fprintf(os.Stderr, "   END x%d %s\n", n, k)
				}
			}
		}(i)
	}
	wg.Wait()

	// aggregate
	kf := loadKnown()
	var (
		paths, obl, dis, unk, feas, queries int
		solverT                             time.Duration
		samples                             []interface{}
		notes                               []string
		broken                              []string
		exit                                int
		nviol                               int
		knownPrinted                        = map[string]bool{}
		bounds                              []string
		inconclusive                        []string
		reachTotal, reachHit                int
		tracesValidated                     int
		twinsOK                             int
	)
	ends := map[string]int{}
	for _, res := range results {
		name := res.Job.Name()
		paths += res.Paths
		obl += res.Obligations
		dis += res.Discharged
		unk += res.Unknown
		feas += res.Feas
		queries += res.Queries
		solverT += res.SolverTime
		for k, v := range res.Ends {
			ends[string(k)] += v
		}
		if res.Err != "" {
			broken = append(broken, name+": "+res.Err)
		}
		for k, v := range res.EndMsgs {
			if strings.HasPrefix(k, "blocked") && res.Job.H.BlockOK {
				continue
			}
			if strings.HasPrefix(k, "unknown") || strings.HasPrefix(k, "bound") || strings.HasPrefix(k, "blocked") {
				inconclusive = append(inconclusive, fmt.Sprintf("%s: %s (x%d)", name, k, v))
			}
		}
		for _, n := range res.Notes {
			notes = append(notes, name+": "+n)
		}
		if res.Job.H.Bounds != "" && (!res.Job.H.HasParam || res.Job.Param == res.Job.H.ParamLo) {
			bounds = append(bounds, res.Job.H.Name+": "+res.Job.H.Bounds)
		}
		// vacuity: every harness must hit at least one verifReach label ("end")
		reachTotal++
		if len(res.Reach) > 0 {
			reachHit++
		} else if res.Err == "" {
			if !res.Job.H.HasParam || true {
				notes = append(notes, name+": no reachability witness (harness never reached verifReach)")
			}
		}
		if len(samples) < 8 && len(res.Samples) > 0 {
			samples = append(samples, map[string]interface{}{"harness": name, "paths": res.Paths, "obligations": res.Samples})
		}
		for _, kw := range res.KnownHits {
			if !knownPrinted[kw] {
				knownPrinted[kw] = true
				fmt.Printf("KNOWN-FINDING: property=%s %s\n", opt.Prop, kw)
			}
		}
		if res.Job.H.Twin {
			// vacuity twin: must be violated; its violations are not reported
			if len(res.Violations) == 0 {
				broken = append(broken, name+": vacuity twin was not violated (the query cannot see what it is meant to see)")
			} else {
				notes = append(notes, fmt.Sprintf("%s: vacuity twin violated as expected (%s)", name, res.Violations[0].Label))
				twinsOK++
			}
			continue
		}
		// violations: dedupe by label+pos
		seen := map[string]bool{}
		for _, v := range res.Violations {
			key := v.Label + "@" + v.Pos
			if seen[key] {
				continue
			}
			seen[key] = true
			if k := matchKnown(kf, opt.Prop, name, v); k != nil {
				if !knownPrinted[k.What] {
					knownPrinted[k.What] = true
					fmt.Printf("KNOWN-FINDING: property=%s %s\n", opt.Prop, k.What)
				}
				continue
			}
			// replay
			rp := writeReplay(opt.Prop, name, res.Job, v)
			ok, out := true, ""
			if res.Job.H.PO && v.Replayed != nil {
				ok = *v.Replayed
				out = "schedule replay: " + v.Msg
				tracesValidated++
			}
			if !opt.NoReplay && !res.Job.H.PO {
				if res.Job.H.ReplayInterp {
					ok, out = InterpReplay(ld, base, res.Job, v, opt.Prop)
				} else {
					ok, out = NativeReplay(ld, res.Job, v, rp)
				}
				tracesValidated++
			}
			if ok {
				nviol++
				exit = 1
				fmt.Printf("VIOLATION property=%s replay=%s\n", opt.Prop, rp)
				fmt.Printf("  harness=%s label=%s pos=%s msg=%s history=[%s]\n", name, v.Label, v.Pos, v.Msg, v.History)
			} else {
				inconclusive = append(inconclusive, fmt.Sprintf("%s: counterexample for %s at %s did not reproduce natively (%s)", name, v.Label, v.Pos, firstLine(out)))
				fmt.Printf("INCONCLUSIVE property=%s harness=%s label=%s pos=%s: solver counterexample did not reproduce natively; replay kept at %s\n", opt.Prop, name, v.Label, v.Pos, rp)
			}
		}
	}
	// witness replays (vacuity guard): replay one reach witness per harness function natively
	if !opt.NoReplay {
		done := map[string]bool{}
		for _, res := range results {
			if done[res.Job.H.Name] || len(res.Reach) == 0 {
				continue
			}
			var lbls []string
			for l := range res.Reach {
				lbls = append(lbls, l)
			}
			sort.Strings(lbls)
			l := lbls[len(lbls)-1]
			done[res.Job.H.Name] = true
			if res.Job.H.PO || res.Job.H.ReplayInterp {
				continue
			}
			ok, out := NativeWitness(ld, res.Job, l, res.ReachNondets[l], res.ReachModels[l])
			if ok {
				tracesValidated++
			} else {
				notes = append(notes, fmt.Sprintf("%s: witness %q did not replay natively: %s", res.Job.Name(), l, firstLine(out)))
			}
			if tracesValidated >= 6 && opt.Tier == "quick" {
				break
			}
		}
	}
	if reachHit < reachTotal && len(broken) == 0 {
		// harnesses without any witness are broken machinery unless they ended only in known ways
		for _, res := range results {
			if len(res.Reach) == 0 && res.Err == "" && len(res.Violations) == 0 {
				broken = append(broken, res.Job.Name()+": vacuous (no verifReach label reached)")
			}
		}
	}
	sort.Strings(inconclusive)
	for _, l := range inconclusive {
		fmt.Println("INCONCLUSIVE", "property="+opt.Prop, l)
	}
	for _, b := range broken {
		fmt.Println("BROKEN", b)
	}
	wall := time.Since(t0).Seconds()
	cov := map[string]interface{}{
		"states":                        paths,
		"transitions":                   obl + feas,
		"traces_validated_against_impl": tracesValidated,
		"samples":                       samples,
		"obligations":                   obl,
		"discharged":                    dis,
		"unknown":                       unk,
		"feasibility_queries":           feas,
		"solver_queries":                queries,
		"solver_time_s":                 solverT.Seconds(),
		"path_ends":                     ends,
		"harness_instances":             len(jobs),
		"functions":                     ld.Eng.Entered(),
		"bounds":                        bounds,
		"stubs":                         ld.StubList,
		"inconclusive":                  inconclusive,
		"notes":                         capList(append(initNotes, notes...), 40),
		"loop_bound":                    ld.Eng.LoopBound,
		"vacuity_twins_violated":        twinsOK,
		"solver":                        solverName(opt) + " (persistent process, push/pop per query)",
		"explanation":                   "bounded symbolic execution of the real SSA of /repo; every assertion is one SMT query over all values inside the stated bounds",
	}
	for _, res := range results {
		if res.Job.H.PO {
			cov["explanation"] = "sequential parts: bounded symbolic execution of the real SSA of /repo, every assertion one SMT query; interleavings: per-thread symbolic executions of the same SSA turned into event DAGs, one SMT formula per query (safety / quiescence / unwinding / witness / race) whose models are exactly the sequentially consistent interleavings inside the stated bounds; a SAT answer is re-executed sequentially over one shared heap before it is reported"
			break
		}
	}
	if len(samples) == 0 {
		cov["samples"] = []interface{}{"no assertion reached"}
	}
	ev := Evidence{PropertyID: opt.Prop, Tier: opt.Tier, Seed: seedEnv(), Level: "model_checking", Coverage: cov,
		Assumptions: assumptionsFor(opt.Prop, ld), WallS: wall, Violations: nviol}
	if !opt.NoEvidence {
		os.MkdirAll(filepath.Join(VerifDir, "evidence"), 0o755)
		b, _ := json.MarshalIndent(ev, "", " ")
		os.WriteFile(filepath.Join(VerifDir, "evidence", opt.Prop+".json"), b, 0o644)
	}
	fmt.Printf("property=%s tier=%s harness_instances=%d paths=%d obligations=%d discharged=%d unknown=%d violations=%d solver_queries=%d solver_time=%.1fs wall=%.1fs\n",
		opt.Prop, opt.Tier, len(jobs), paths, obl, dis, unk, nviol, queries, solverT.Seconds(), wall)
	if len(broken) > 0 && exit == 0 {
		return 2
	}
	return exit
}

func capList(l []string, n int) []string {
	if len(l) > n {
		return append(l[:n], fmt.Sprintf("… %d more", len(l)-n))
	}
	return l
}

func firstLine(s string) string {
	s = strings.TrimSpace(s)
	if i := strings.Index(s, "\n"); i >= 0 {
		s = s[:i]
	}
	if len(s) > 200 {
		s = s[:200]
	}
	return s
}

func seedEnv() int {
	var n int
	fmt.Sscanf(os.Getenv("VERIF_SEED"), "%d", &n)
	return n
}

func assumptionsFor(prop string, ld *Loaded) []string {
	a := []string{
		"bounds as listed in coverage.bounds; nothing is claimed outside them",
		"slice lengths and capacities lie in [0, 2^40] where a harness says so",
		"stub contracts listed in coverage.stubs replace the kernel, the allocator pools, time and logging",
		"sequential consistency; pointer structure concrete per path, scalars/bytes symbolic",
		"DESIGN.md section 7 (what this technique does not reach)",
	}
	return a
}

func ssautilAllFunctions(p *ssa.Program) map[*ssa.Function]bool { return ssautil.AllFunctions(p) }

func solverName(opt Options) string {
	if opt.Solver == "" {
		return "z3-new (z3 5.1.0)"
	}
	return opt.Solver
}

func contains(l []string, s string) bool {
	for _, x := range l {
		if x == s {
			return true
		}
	}
	return false
}
