// Package check: loads /repo with harness overlays, runs harnesses, writes evidence.
package check

import (
	"fmt"
	"os"
	"path/filepath"
	"regexp"
	"sort"
	"strconv"
	"strings"

	"golang.org/x/tools/go/packages"
	"golang.org/x/tools/go/ssa"
	"golang.org/x/tools/go/ssa/ssautil"

	"verif/engine/sym"
)

// RepoDir is /repo; VERIF_REPO overrides it for development runs against scratch worktrees.
var RepoDir = repoDir()
// VerifDir is where harnesses, known findings, evidence and replays live; VERIF_DIR overrides it
// (used for background runs from a snapshot, whose output must not touch /verif/evidence).
var VerifDir = func() string {
	if d := os.Getenv("VERIF_DIR"); d != "" {
		return d
	}
	return "/verif"
}()
const NetpollPath = "github.com/cloudwego/netpoll"

type HarnessInfo struct {
	Name     string
	Fn       *ssa.Function
	Prop     string
	Tier     string // "quick" or "thorough"
	ParamLo  int
	ParamHi  int
	HasParam bool
	Loop     int
	Bounds   string
	Doc      []string
	File     string
	Expect   string
	NoPanicCheck bool
	Also     []string
	PO       bool
	MaxSpawn int
	POTimeout int
	POLoop   int
	ReplayInterp bool
	NoBlock  bool
	Relabel  map[string]string
	MaxClasses int
	UnwindCheck bool // pose the unwinding query also when the harness is run for C19
	Twin     bool // vacuity twin: the harness is built to violate; a run in which it does not is broken
	BlockOK  bool
}

type Loaded struct {
	Prog      *ssa.Program
	Pkgs      []*ssa.Package
	Eng       *sym.Engine
	Harnesses []*HarnessInfo
	Overlay   map[string][]byte
	Files     []string // harness files used (real paths)
	StubList  []string
}

var reStub = regexp.MustCompile(`^//verif:stub\s+(\S+)\s+(\S+)`)
var reDir = regexp.MustCompile(`^//verif:(\w+)\s*(.*)$`)

// harnessFiles returns the real paths of the harness files for the given groups.
// Layout: /verif/harness/<pkgdir>/<group>_*.go ; group "common" is always included.
func harnessFiles(pkgdir string, groups []string) []string {
	dir := filepath.Join(VerifDir, "harness", pkgdir)
	ents, _ := os.ReadDir(dir)
	var out []string
	for _, e := range ents {
		n := e.Name()
		if !strings.HasSuffix(n, ".go") {
			continue
		}
		g := strings.SplitN(strings.TrimSuffix(n, ".go"), "_", 2)[0]
		ok := g == "common"
		for _, want := range groups {
			if g == want {
				ok = true
			}
		}
		if ok {
			out = append(out, filepath.Join(dir, n))
		}
	}
	sort.Strings(out)
	return out
}

// Load builds SSA for netpoll (+mux) from /repo's working tree with the harness groups overlaid.
func Load(groups []string) (*Loaded, error) {
	overlay := map[string][]byte{}
	var files []string
	type stubDir struct{ callee, repl, pkg string }
	var stubs []stubDir
	for _, pd := range []struct{ dir, virt, pkg string }{
		{"netpoll", RepoDir, NetpollPath},
		{"mux", filepath.Join(RepoDir, "mux"), NetpollPath + "/mux"},
	} {
		hf := harnessFiles(pd.dir, groups)
		if pd.dir == "mux" && len(hf) > 0 {
			// the harness vocabulary is shared: inject the netpoll copies under package mux
			for _, cf := range []string{"common_intrinsics.go", "common_native.go"} {
				b, err := os.ReadFile(filepath.Join(VerifDir, "harness", "netpoll", cf))
				if err != nil {
					return nil, err
				}
				overlay[filepath.Join(pd.virt, "zz_verif_"+cf)] = []byte(strings.Replace(string(b), "package netpoll", "package mux", 1))
			}
		}
		for _, f := range hf {
			b, err := os.ReadFile(f)
			if err != nil {
				return nil, err
			}
			overlay[filepath.Join(pd.virt, "zz_verif_"+filepath.Base(f))] = b
			files = append(files, f)
			for _, l := range strings.Split(string(b), "\n") {
				if m := reStub.FindStringSubmatch(strings.TrimSpace(l)); m != nil {
					stubs = append(stubs, stubDir{m[1], m[2], pd.pkg})
				}
			}
		}
	}
	cfg := &packages.Config{
		Mode:    packages.LoadAllSyntax,
		Dir:     RepoDir,
		Overlay: overlay,
		BuildFlags: []string{"-tags=verif"},
		Env:     append(os.Environ(), "GOFLAGS=-mod=mod", "GOPROXY=off", "GOSUMDB=off", "GOTOOLCHAIN=local"),
	}
	pkgs, err := packages.Load(cfg, ".", "./mux")
	if err != nil {
		return nil, err
	}
	var errs []string
	for _, p := range pkgs {
		for _, e := range p.Errors {
			errs = append(errs, e.Error())
		}
	}
	if len(errs) > 0 {
		return nil, fmt.Errorf("load errors:\n%s", strings.Join(errs, "\n"))
	}
	prog, spkgs := ssautil.AllPackages(pkgs, ssa.InstantiateGenerics)
	prog.Build()
	eng := sym.NewEngine(prog)
	ld := &Loaded{Prog: prog, Pkgs: spkgs, Eng: eng, Overlay: overlay, Files: files}
	for _, sp := range prog.AllPackages() {
		eng.Pkgs[sp.Pkg.Path()] = sp
	}
	// stubs
	byName := map[string]*ssa.Function{}
	for _, sp := range spkgs {
		for _, m := range sp.Members {
			if fn, ok := m.(*ssa.Function); ok {
				byName[sp.Pkg.Path()+"."+fn.Name()] = fn
			}
		}
	}
	for _, s := range stubs {
		fn := byName[s.pkg+"."+s.repl]
		if fn == nil {
			return nil, fmt.Errorf("stub replacement %s not found in %s", s.repl, s.pkg)
		}
		eng.Stubs[s.callee] = fn
		ld.StubList = append(ld.StubList, s.callee+" -> "+s.repl)
	}
	sort.Strings(ld.StubList)
	// harnesses
	for i, sp := range spkgs {
		_ = i
		var names []string
		for n := range sp.Members {
			names = append(names, n)
		}
		sort.Strings(names)
		for _, n := range names {
			fn, ok := sp.Members[n].(*ssa.Function)
			if !ok || !strings.HasPrefix(n, "verifHarness_") {
				continue
			}
			parts := strings.SplitN(n, "_", 3)
			h := &HarnessInfo{Name: n, Fn: fn, Tier: "quick"}
			if len(parts) >= 2 {
				h.Prop = parts[1]
			}
			// doc directives
			if syn := fn.Syntax(); syn != nil {
				pos := prog.Fset.Position(syn.Pos())
				h.File = pos.Filename
				src := overlay[pos.Filename]
				h.Doc = docAbove(string(src), pos.Line)
			}
			for _, l := range h.Doc {
				m := reDir.FindStringSubmatch(l)
				if m == nil {
					continue
				}
				switch m[1] {
				case "tier":
					h.Tier = strings.TrimSpace(m[2])
				case "param":
					f := strings.Fields(m[2])
					if len(f) == 2 {
						h.ParamLo, _ = strconv.Atoi(f[0])
						h.ParamHi, _ = strconv.Atoi(f[1])
						h.HasParam = true
					}
				case "loop":
					h.Loop, _ = strconv.Atoi(strings.TrimSpace(m[2]))
				case "bounds":
					h.Bounds = strings.TrimSpace(m[2])
				case "po":
					h.PO = true
				case "blockok":
					h.BlockOK = true
				case "noblock":
					h.NoBlock = true
				case "twin":
					h.Twin = true
				case "relabel":
					f := strings.Fields(m[2])
					if len(f) == 2 {
						if h.Relabel == nil {
							h.Relabel = map[string]string{}
						}
						h.Relabel[f[0]] = f[1]
					}
				case "replay":
					h.ReplayInterp = strings.TrimSpace(m[2]) == "interp"
				case "poloop":
					h.POLoop, _ = strconv.Atoi(strings.TrimSpace(m[2]))
				case "maxspawn":
					h.MaxSpawn, _ = strconv.Atoi(strings.TrimSpace(m[2]))
				case "maxclasses":
					h.MaxClasses, _ = strconv.Atoi(strings.TrimSpace(m[2]))
				case "unwindcheck":
					h.UnwindCheck = true
				case "potimeout":
					h.POTimeout, _ = strconv.Atoi(strings.TrimSpace(m[2]))
				case "also":
					h.Also = strings.Fields(m[2])
				case "nopaniccheck":
					h.NoPanicCheck = true
				}
			}
			ld.Harnesses = append(ld.Harnesses, h)
		}
	}
	return ld, nil
}

func docAbove(src string, line int) []string {
	lines := strings.Split(src, "\n")
	var out []string
	for i := line - 2; i >= 0 && i < len(lines); i-- {
		l := strings.TrimSpace(lines[i])
		if !strings.HasPrefix(l, "//") {
			break
		}
		out = append([]string{l}, out...)
	}
	return out
}

func repoDir() string {
	if d := os.Getenv("VERIF_REPO"); d != "" {
		return d
	}
	return "/repo"
}
