package check

import (
	"fmt"
	"os"
	"path/filepath"
	"sort"
	"strings"
	"time"

	"verif/engine/smt"
	"verif/engine/sym"
)

type POOutcome struct {
	Scenario   int
	Threads    int
	Events     int
	Edges      int
	Shared     int
	Passes     int
	ExploreS   float64
	Results    []sym.POResult
	Notes      []string
	Unsupp     []string
	CutReach   smt.Result
	WitnessOK  bool
	WitnessLbl []string
}

// runPO runs the partial-order pipeline from a prologue end state.
func runPO(ld *Loaded, r *sym.Run, st *sym.State, j Job, opt Options, scen int) POOutcome {
	out := POOutcome{Scenario: scen}
	t0 := time.Now()
	proMax := *st.NextID
	var roots []*sym.POThread
	for _, sp := range st.POThreads {
		roots = append(roots, &sym.POThread{Name: sp.Name, Entry: sp.Fn, Init: st, Final: sp.Final})
	}
	po := sym.NewPO(ld.Eng, r, proMax)
	if j.H.POLoop > 0 {
		r.LoopBound = j.H.POLoop
	}
	po.Verbose = opt.Verbose && os.Getenv("VERIF_POTHREADS") != ""
	if j.H.MaxSpawn > 0 {
		po.MaxSpawn = j.H.MaxSpawn
	}
	if j.H.MaxClasses > 0 {
		po.MaxClasses = j.H.MaxClasses
	}
	// Passes: start with the locations touched by atomic/channel/mutex operations as shared;
	// after each pass, plain locations written by one thread and accessed by another become
	// shared too; repeat until neither the shared set nor the value classes change.
	converged := false
	for it := 0; it < 12; it++ {
		po.Reset(roots)
		po.Explore()
		out.Passes++
		grew := false
		for k := range po.Written {
			if len(po.Accessed[k]) >= 2 && !po.Shared[k] {
				po.Shared[k] = true
				grew = true
				if po.Verbose {
					fmt.Fprintf(os.Stderr, "    pass %d: new shared location %s\n", it, k)
				}
			}
		}
		if po.Verbose {
			fmt.Fprintf(os.Stderr, "    pass %d: shared=%d classes=%s rerun=%v\n", it, len(po.Shared), po.ClassSummary(), po.Rerun())
		}
		if !grew && !po.Rerun() {
			converged = true
			break
		}
	}
	if !converged {
		po.Unsupp = append(po.Unsupp, "shared-set / value-set passes did not reach a fixpoint in 12 rounds")
	}
	shared := po.Shared
	out.ExploreS = time.Since(t0).Seconds()
	out.Threads, out.Events, out.Edges = po.Stats()
	out.Shared = len(shared)
	out.Notes = po.Notes
	out.Unsupp = po.Unsupp
	if opt.Verbose {
		fmt.Fprintf(os.Stderr, "  PO %s scen %d: threads=%d events=%d edges=%d shared=%d passes=%d explore=%.1fs unsupp=%d\n",
			j.Name(), scen, out.Threads, out.Events, out.Edges, out.Shared, out.Passes, out.ExploreS, len(po.Unsupp))
		if opt.Debug || os.Getenv("VERIF_PODUMP") != "" {
			fmt.Fprintln(os.Stderr, po.Dump())
		}
	}
	to := time.Duration(j.H.POTimeout) * time.Second
	if to == 0 {
		to = 120 * time.Second
	}
	if v := os.Getenv("VERIF_POTIMEOUT"); v != "" {
		var n int
		fmt.Sscanf(v, "%d", &n)
		if n > 0 {
			to = time.Duration(n) * time.Second
		}
	}
	hasFinal := false
	for _, t := range po.Threads {
		if t.Final {
			hasFinal = true
		}
	}
	queries := []sym.POQuery{
		{Name: "witness:end", Goal: sym.ReachAllGoal(), Quiescence: false},
		{Name: "safety", Goal: sym.AssertGoal(opt.Prop, false)},
		{Name: "unwinding", Goal: sym.CutGoal()},
	}
	if hasFinal {
		queries = append(queries, sym.POQuery{Name: "quiescence", Quiescence: true, Goal: sym.AssertGoal(opt.Prop, true)})
		queries = append(queries, sym.POQuery{Name: "witness:quiescent", Quiescence: true, Goal: func(po *sym.PO) *smt.Term { return smt.True }})
	}
	if opt.Prop == "C19" {
		// the race check rides on the host harness: only the witness and the race query
		queries = []sym.POQuery{
			{Name: "witness:end", Goal: sym.ReachAllGoal()},
			{Name: "race", Race: true},
		}
		if j.H.UnwindCheck {
			queries = append(queries, sym.POQuery{Name: "unwinding", Goal: sym.CutGoal()})
		}
	}
	kf := loadKnown()
	solveQ := func(q sym.POQuery) sym.POResult {
		if q.Race {
			excl := map[string]bool{}
			var known []string
			for round := 0; round < 12; round++ {
				qq := q
				qq.RaceExcl = excl
				res := po.Solve(qq, to)
				if res.Res != smt.Sat {
					res.KnownHit = known
					return res
				}
				allKnown := len(res.Races) > 0
				for _, rc := range res.Races {
					v := sym.Violation{Label: "C19/data-race", Msg: rc.Key(), Pos: rc.Key(), History: poTraceText(res)}
					if k := matchKnown(kf, opt.Prop, j.Name(), v); k != nil {
						excl[rc.Key()] = true
						known = append(known, k.What)
					} else {
						allKnown = false
					}
				}
				if !allKnown {
					res.KnownHit = known
					return res
				}
			}
			return sym.POResult{Name: q.Name, Res: smt.Unknown, KnownHit: known}
		}
		// assertion queries: when every failure of the model is a listed known finding, those
		// assertion events are excluded and the query is posed again, so that a different
		// violation hiding behind a known one is still found
		isAssert := q.Name == "safety" || q.Name == "quiescence"
		if !isAssert {
			return po.Solve(q, to)
		}
		excl := map[int]bool{}
		var known []string
		for round := 0; round < 8; round++ {
			qq := q
			qq.Goal = sym.AssertGoalExcl(opt.Prop, q.Name == "quiescence", excl)
			res := po.Solve(qq, to)
			if res.Res != smt.Sat {
				res.KnownHit = known
				return res
			}
			allKnown := len(res.FailedEv) > 0
			for _, e := range res.FailedEv {
				v := sym.Violation{Label: e.Label, Pos: q.Name + " " + e.Pos, Stack: e.Stack, History: poTraceText(res)}
				if k := matchKnown(kf, opt.Prop, j.Name(), v); k != nil {
					excl[e.ID] = true
					known = append(known, k.What)
				} else {
					allKnown = false
				}
			}
			if !allKnown {
				res.KnownHit = known
				return res
			}
		}
		return sym.POResult{Name: q.Name, Res: smt.Unknown, KnownHit: known}
	}
	resCh := make(chan sym.POResult, len(queries))
	for _, q := range queries {
		go func(q sym.POQuery) { resCh <- solveQ(q) }(q)
	}
	for range queries {
		res := <-resCh
		if res.Res == smt.Sat && (res.Name == "safety" || res.Name == "quiescence" || res.Name == "race") && (len(res.FailedEv) > 0 || len(res.Races) > 0) {
			replayPO(ld, po, st, j, opt, &res)
			if opt.Verbose {
				fmt.Fprintf(os.Stderr, "  PO %s scen %d query %s: schedule replay: %s labels=%v\n", j.Name(), scen, res.Name, res.Replay, res.ReplayLabels)
			}
		}
		out.Results = append(out.Results, res)
		if opt.Verbose {
			fmt.Fprintf(os.Stderr, "  PO %s scen %d query %s: %s (%s, %.1fs)\n", j.Name(), scen, res.Name, res.Res, res.Solver, res.Time.Seconds())
		}
		if sd := os.Getenv("VERIF_SLOWLOG"); sd != "" {
			os.WriteFile(filepath.Join(sd, sanitizeFile(j.Name()+"_"+res.Name)+".smt2"), []byte(res.Script), 0o644)
		}
	}
	sort.Slice(out.Results, func(a, b int) bool { return out.Results[a].Name < out.Results[b].Name })
	return out
}

// replayPO re-executes the schedule of a SAT model sequentially over one shared heap (see
// sym/poreplay.go) and records the outcome in the result.
func replayPO(ld *Loaded, po *sym.PO, st *sym.State, j Job, opt Options, res *sym.POResult) {
	if res.Res != smt.Sat || len(res.Sched) == 0 || opt.NoReplay {
		return
	}
	s, err := smt.NewSolver("z3-new", 20000)
	if err != nil {
		res.Replay = "no solver: " + err.Error()
		return
	}
	defer s.Close()
	r := sym.NewRun(ld.Eng, s, "poreplay:"+j.Name())
	r.Prop = opt.Prop
	r.Relabel = j.H.Relabel
	if j.H.Loop > 0 {
		r.LoopBound = j.H.Loop
	}
	r.MaxPaths = 20000
	rp := sym.NewPOReplay(po, res.Sched, "")
	rp.NeedViolation = len(res.FailedEv) > 0
	rp.CheckMaximal = res.Name == "quiescence"
	func() {
		defer func() {
			if e := recover(); e != nil {
				res.Replay = fmt.Sprintf("replay panic: %v", e)
			}
		}()
		rp.Run(r, st)
	}()
	if res.Replay != "" {
		return
	}
	res.ReplayLabels = rp.Labels
	if rp.Complete && rp.CheckMaximal && !rp.Maximal {
		res.Replay = "schedule replayed, but the end state is not quiescent: " + rp.NotMaximal
	} else if rp.Complete {
		res.Replay = "ok"
	} else {
		res.Replay = fmt.Sprintf("schedule replay stopped after %d of %d events: %s", rp.Best, len(rp.Sched), rp.BestWhy)
	}
}

func poTraceText(res sym.POResult) string {
	var sb strings.Builder
	fmt.Fprintf(&sb, "query %s: %s by %s in %.1fs\n", res.Name, res.Res, res.Solver, res.Time.Seconds())
	for _, f := range res.Failed {
		sb.WriteString("FAILED " + f + "\n")
	}
	sb.WriteString("schedule (clock, thread, source position, event):\n")
	for _, l := range res.Trace {
		sb.WriteString(l + "\n")
	}
	return sb.String()
}
