package sym

import (
	"fmt"
	"os"
	"go/token"
	"go/types"

	"verif/engine/smt"
)

// Schedule replay of a partial-order counterexample (DESIGN 10.2/10.8).
//
// The solver's model of a PO query is a set of executed events with clocks. Replay re-executes
// the real SSA of all threads over ONE shared heap in plain sequential mode (no event
// variables, no merging, no reads-from constraints): the thread that owns the next scheduled
// event runs until it is about to execute its next event site; if that site is the scheduled
// event it executes against the real heap, otherwise the path has diverged. Data stays
// symbolic (nondeterministic inputs are fresh variables as in SEQ mode), so a replay path that
// consumes the whole schedule and on which the failing assertion is satisfiable confirms the
// counterexample independently of the partial-order encoding. For a quiescence query the end
// state is probed too (probeMaximal): no unfinished thread may be able to take another step.

type rpThread struct {
	T       *POThread
	Frames  []*Frame
	Started bool
	Done    bool
	Fn      Func
	Args    []Value
	PanicOK bool
	Panic   *PanicInfo
}

type rpState struct {
	Probe   bool // maximality probe: event sites are executed without consulting the schedule
	Idx     int
	Cur     int
	Threads []*rpThread
	Last    *POEvent
}

func (s *rpState) clone() *rpState {
	n := &rpState{Idx: s.Idx, Cur: s.Cur, Last: s.Last, Probe: s.Probe}
	for _, t := range s.Threads {
		c := *t
		if t.Panic != nil {
			pi := *t.Panic
			c.Panic = &pi
		}
		if t.Frames != nil {
			c.Frames = make([]*Frame, len(t.Frames))
			for i, f := range t.Frames {
				c.Frames[i] = f.clone()
			}
		}
		n.Threads = append(n.Threads, &c)
	}
	return n
}

type POReplay struct {
	PO       *PO
	Sched    []*POEvent
	Complete bool     // some path consumed the whole schedule
	Best     int      // most events consumed on any path
	BestWhy  string   // why the best path stopped
	Target   string   // label of the assertion that must fail ("" for race / witness replays)
	Hit      bool     // the target assertion failed on a path that consumed the schedule up to it
	Labels   map[string]bool // labels of all assertions that failed on replay paths
	NeedViolation bool        // keep exploring data forks until an assertion fails on a complete path
	CheckMaximal  bool        // quiescence query: at the end of the schedule every unfinished thread must be blocked
	Maximal       bool        // some complete path passed the maximality probe
	NotMaximal    string      // why the probe failed on the last complete path that failed it
}

// MemHook: nothing is intercepted, all accesses go to the shared heap.
func (rp *POReplay) Load(st *State, p Ptr, t types.Type, atomicOp bool, pos token.Pos) (Value, bool, error) {
	return nil, false, nil
}
func (rp *POReplay) Store(st *State, p Ptr, v Value, atomicOp bool, pos token.Pos) (bool, error) {
	return false, nil
}

// kinds of events that do not correspond to an instruction site
func rpSiteless(e *POEvent) bool {
	switch e.Kind {
	case "root", "end", "end-panic-ok", "cut", "unknown":
		return true
	}
	return e.Kind == "assert" && e.Label == "panic"
}

// NewPOReplay builds the schedule from the executed events of a model (already in clock order).
func NewPOReplay(po *PO, executed []*POEvent, target string) *POReplay {
	rp := &POReplay{PO: po, Target: target}
	for _, e := range executed {
		if !rpSiteless(e) {
			rp.Sched = append(rp.Sched, e)
		}
	}
	return rp
}

type rpAction int

const (
	rpProceed rpAction = iota
	rpSwitched
	rpStop
	rpDiverged
)

func (rp *POReplay) note(st *State, why string) {
	if st.Rp.Idx > rp.Best || rp.BestWhy == "" {
		rp.Best = st.Rp.Idx
		rp.BestWhy = why
	}
}

func (rp *POReplay) threadIndex(st *State, t *POThread) int {
	for i, x := range st.Rp.Threads {
		if x.T == t {
			return i
		}
	}
	return -1
}

// switchTo makes thread i the running one (its frames become st.Frames).
func (rp *POReplay) switchTo(r *Run, st *State, i int) error {
	s := st.Rp
	if s.Cur >= 0 && s.Cur < len(s.Threads) {
		c := s.Threads[s.Cur]
		c.Frames = st.Frames
		c.PanicOK, c.Panic = st.PanicOK, st.Panic
	}
	t := s.Threads[i]
	s.Cur = i
	if !t.Started {
		t.Started = true
		st.Frames = nil
		if err := r.pushCallValue(st, t.Fn, t.Args); err != nil {
			return err
		}
		st.PanicOK, st.Panic = false, nil
		return nil
	}
	st.Frames = t.Frames
	t.Frames = nil
	st.PanicOK, st.Panic = t.PanicOK, t.Panic
	return nil
}

func (rp *POReplay) nextIsCurrent(st *State) bool {
	s := st.Rp
	if s.Idx >= len(rp.Sched) {
		return true
	}
	return rp.Sched[s.Idx].T == s.Threads[s.Cur].T
}

// atSite is called before the running thread executes an event site at position pos.
func (rp *POReplay) atSite(r *Run, st *State, pos string) (rpAction, error) {
	s := st.Rp
	if s.Idx >= len(rp.Sched) {
		rp.completed(r, st)
		return rpStop, nil
	}
	ev := rp.Sched[s.Idx]
	cur := s.Threads[s.Cur]
	if ev.T != cur.T {
		i := rp.threadIndex(st, ev.T)
		if i < 0 {
			rp.note(st, fmt.Sprintf("event %d belongs to thread %s which has not been spawned on this path", s.Idx, ev.T.Name))
			return rpDiverged, nil
		}
		if s.Threads[i].Done {
			rp.note(st, fmt.Sprintf("event %d belongs to thread %s which has already ended", s.Idx, ev.T.Name))
			return rpDiverged, nil
		}
		if err := rp.switchTo(r, st, i); err != nil {
			return rpDiverged, err
		}
		return rpSwitched, nil
	}
	if ev.Pos != pos {
		rp.note(st, fmt.Sprintf("event %d: thread %s is at %s, the schedule expects %s (%s)", s.Idx, cur.T.Name, pos, ev.Pos, ev.Kind))
		return rpDiverged, nil
	}
	s.Idx++
	s.Last = ev
	if s.Idx > rp.Best {
		rp.Best = s.Idx
		rp.BestWhy = "running"
	}
	return rpProceed, nil
}

// threadEnd is called when the running thread has returned (or ended by an allowed panic).
// It reports whether another thread was switched in.
func (rp *POReplay) threadEnd(r *Run, st *State) (bool, error) {
	s := st.Rp
	s.Threads[s.Cur].Done = true
	s.Threads[s.Cur].Frames = nil
	st.Frames = nil
	if s.Idx >= len(rp.Sched) {
		rp.completed(r, st)
		return false, nil
	}
	ev := rp.Sched[s.Idx]
	i := rp.threadIndex(st, ev.T)
	if i < 0 || s.Threads[i].Done {
		rp.note(st, fmt.Sprintf("event %d (%s %s) belongs to a thread that cannot run", s.Idx, ev.T.Name, ev.Pos))
		return false, nil
	}
	s.Cur = -1
	if err := rp.switchTo(r, st, i); err != nil {
		return false, err
	}
	return true, nil
}

// completed is called when a path has consumed the whole schedule.
func (rp *POReplay) completed(r *Run, st *State) {
	rp.Complete = true
	rp.note(st, "schedule complete")
	if !rp.CheckMaximal {
		return
	}
	if ok, why := rp.probeMaximal(r, st); ok {
		rp.Maximal = true
	} else {
		rp.NotMaximal = why
	}
}

// probeMaximal checks the other half of a quiescent counterexample: in the state reached at
// the end of the schedule every thread that has not finished is suspended in front of an event
// site that cannot execute (an empty channel, a select without a ready case, a held mutex).
// Each such thread is resumed on a copy of the state and asked to execute that one instruction.
func (rp *POReplay) probeMaximal(r *Run, st *State) (bool, string) {
	s := st.Rp
	if s.Cur >= 0 && s.Cur < len(s.Threads) && len(st.Frames) > 0 {
		c := s.Threads[s.Cur]
		c.Frames = st.Frames
		c.PanicOK, c.Panic = st.PanicOK, st.Panic
	}
	for i, t := range s.Threads {
		if t.Done || t.T.Final {
			continue
		}
		if !t.Started {
			return false, "thread " + t.T.Name + " was never started"
		}
		if len(t.Frames) == 0 {
			continue
		}
		f := st.Fork()
		f.Rp.Probe = true
		f.Rp.Cur = i
		ft := f.Rp.Threads[i]
		f.Frames = ft.Frames
		ft.Frames = nil
		f.PanicOK, f.Panic = ft.PanicOK, ft.Panic
		nw := len(r.work)
		err := r.step(f)
		r.work = r.work[:nw]
		if err == nil {
			return false, "thread " + t.T.Name + " can still execute " + f.curPos()
		}
		pe, ok := err.(pathEnd)
		if !ok || pe.kind != EndBlocked {
			return false, "thread " + t.T.Name + ": probe ended with " + err.Error()
		}
		if os.Getenv("VERIF_RPDEBUG") != "" {
			fmt.Fprintf(os.Stderr, "    maximality probe: thread %s is blocked (%s)\n", t.T.Name, pe.msg)
		}
	}
	return true, ""
}

// spawn registers the child thread of the spawn event just consumed.
func (rp *POReplay) spawn(r *Run, st *State, fn Func, args []Value) error {
	s := st.Rp
	if s.Last == nil || s.Last.Child == nil {
		// a spawn the schedule does not know: the child simply never runs
		return nil
	}
	if rp.threadIndex(st, s.Last.Child) >= 0 {
		return nil
	}
	s.Threads = append(s.Threads, &rpThread{T: s.Last.Child, Fn: fn, Args: args})
	return nil
}

// Run replays the schedule from the prologue end state. roots maps the PO root threads to
// their entry functions.
func (rp *POReplay) Run(r *Run, prologue *State) {
	if len(rp.Sched) == 0 {
		rp.Complete = true
		return
	}
	st := prologue.Fork()
	st.Hook = rp
	st.Frames = nil
	st.Resume = nil
	st.POLast = nil
	st.Rp = &rpState{Cur: -1}
	for _, t := range rp.PO.Threads {
		if t.Key != "" {
			continue // spawned threads are registered when their spawn event executes
		}
		st.Rp.Threads = append(st.Rp.Threads, &rpThread{T: t, Fn: t.Entry, Args: t.Args})
	}
	first := rp.threadIndex(st, rp.Sched[0].T)
	if first < 0 {
		rp.BestWhy = "first event belongs to a spawned thread"
		return
	}
	if err := rp.switchTo(r, st, first); err != nil {
		rp.BestWhy = err.Error()
		return
	}
	r.Hook = rp
	nv := len(r.Violations)
	r.work = append(r.work, st)
	for len(r.work) > 0 && !r.stopAll {
		s := r.work[len(r.work)-1]
		r.work = r.work[:len(r.work)-1]
		r.runPath(s)
		if os.Getenv("VERIF_RPDEBUG") != "" && s.Rp != nil {
			fmt.Fprintf(os.Stderr, "    replay path ended: consumed %d/%d events, best=%d (%s), violations=%d\n", s.Rp.Idx, len(rp.Sched), rp.Best, rp.BestWhy, len(r.Violations)-nv)
		}
		if r.Paths >= r.MaxPaths {
			break
		}
		for _, v := range r.Violations[nv:] {
			if rp.Labels == nil {
				rp.Labels = map[string]bool{}
			}
			rp.Labels[v.Label] = true
			if v.Label == rp.Target {
				rp.Hit = true
			}
		}
		if rp.Complete && (!rp.NeedViolation || len(rp.Labels) > 0) && (!rp.CheckMaximal || rp.Maximal) {
			break
		}
	}
}

var _ = smt.True
