// Package sym: symbolic interpreter for go/ssa producing SMT terms.
package sym

import (
	"fmt"
	"go/types"
	"strings"

	"golang.org/x/tools/go/ssa"

	"verif/engine/smt"
)

type Value interface{}

// Scalars (ints, bools) are *smt.Term directly.

type Ptr struct {
	ID   int        // object id; 0 = nil
	Path []int      // field / element path inside an OVal object
	Idx  *smt.Term  // byte index for OBytes objects
}

type Slice struct { // []byte
	ID            int // 0 = nil slice
	Off, Len, Cap *smt.Term
}

type GSlice struct { // slice of non-byte elements over an Array object (concrete geometry)
	ID            int
	Path          []int // path to the array inside the object
	Off, Len, Cap int
}

type Str struct {
	ID       int // 0 = empty string with no block
	Off, Len *smt.Term
	Lit      *string // concrete literal if known
}

type Iface struct {
	T types.Type // nil = nil interface
	V Value
}

type Func struct {
	Fn      *ssa.Function
	Bind    []Value
	Builtin string
}

type Struct struct{ F []Value }
type Array struct{ E []Value }
type Tuple struct{ E []Value }
type Chan struct{ ID int }
type Map struct{ ID int }

// Opaque stands for a value the encoder cannot represent; using it to decide control flow
// makes the path "unknown" (never a pass).
type Opaque struct {
	T   types.Type
	Why string
}

func (p Ptr) IsNil() bool { return p.ID == 0 }

func (p Ptr) sub(i int) Ptr {
	np := make([]int, len(p.Path)+1)
	copy(np, p.Path)
	np[len(p.Path)] = i
	return Ptr{ID: p.ID, Path: np}
}

func samePath(a, b []int) bool {
	if len(a) != len(b) {
		return false
	}
	for i := range a {
		if a[i] != b[i] {
			return false
		}
	}
	return true
}

// ---------------------------------------------------------------- bytes

type byteKind int

const (
	bkBase byteKind = iota
	bkConst
	bkWrite
	bkCopy
	bkZero
)

// ByteFn is an immutable functional description of a block's content.
type ByteFn struct {
	kind   byteKind
	name   string // UF name for base
	consts []byte
	prev   *ByteFn
	idx    *smt.Term
	val    *smt.Term
	dOff   *smt.Term
	n      *smt.Term
	src    *ByteFn
	sOff   *smt.Term
	depth  int
}

func (f *ByteFn) Read(i *smt.Term) *smt.Term {
	switch f.kind {
	case bkBase:
		return smt.App(f.name, 8, i)
	case bkZero:
		return smt.BV(0, 8)
	case bkConst:
		if i.IsConst() {
			if i.C < uint64(len(f.consts)) {
				return smt.BV(uint64(f.consts[i.C]), 8)
			}
			return smt.BV(0, 8)
		}
		// ite chain
		var t *smt.Term = smt.BV(0, 8)
		for k := len(f.consts) - 1; k >= 0; k-- {
			t = smt.Ite(smt.Eq(i, smt.BV(uint64(k), 64)), smt.BV(uint64(f.consts[k]), 8), t)
		}
		return t
	case bkWrite:
		return smt.Ite(smt.Eq(i, f.idx), f.val, f.prev.Read(i))
	case bkCopy:
		in := smt.And(smt.ULe(f.dOff, i), smt.ULt(i, smt.Add(f.dOff, f.n)))
		if in.IsFalse() {
			return f.prev.Read(i)
		}
		return smt.Ite(in, f.src.Read(smt.Add(smt.Sub(i, f.dOff), f.sOff)), f.prev.Read(i))
	}
	panic("bad bytefn")
}

func (f *ByteFn) write(idx, val *smt.Term) *ByteFn {
	return &ByteFn{kind: bkWrite, prev: f, idx: idx, val: val, depth: f.depth + 1}
}

func (f *ByteFn) copyIn(dOff, n *smt.Term, src *ByteFn, sOff *smt.Term) *ByteFn {
	if n.IsConst() && n.C == 0 {
		return f
	}
	return &ByteFn{kind: bkCopy, prev: f, dOff: dOff, n: n, src: src, sOff: sOff, depth: f.depth + 1}
}

// ---------------------------------------------------------------- objects

type ObjKind int

const (
	OVal ObjKind = iota
	OBytes
	OChan
)

type Object struct {
	ID   int
	Kind ObjKind
	T    types.Type
	V    Value
	// OBytes
	Cap     *smt.Term
	Content *ByteFn
	Tag     string
	// OChan
	ChanCap int
	Buf     []Value
	Closed  bool
	// bookkeeping
	Site   string
	Thread int
}

type Heap struct {
	m map[int]*Object
}

func NewHeap() *Heap { return &Heap{m: map[int]*Object{}} }

func (h *Heap) Clone() *Heap {
	n := &Heap{m: make(map[int]*Object, len(h.m)+8)}
	for k, v := range h.m {
		n.m[k] = v
	}
	return n
}

func (h *Heap) Get(id int) *Object { return h.m[id] }

func (h *Heap) Put(o *Object) { h.m[o.ID] = o }

func getPath(v Value, path []int) (Value, error) {
	for _, i := range path {
		switch x := v.(type) {
		case Struct:
			if i >= len(x.F) {
				return nil, fmt.Errorf("field %d out of range", i)
			}
			v = x.F[i]
		case Array:
			if i >= len(x.E) {
				return nil, fmt.Errorf("index %d out of range", i)
			}
			v = x.E[i]
		default:
			return nil, fmt.Errorf("path into non-aggregate %T", v)
		}
	}
	return v, nil
}

func setPath(v Value, path []int, nv Value) (Value, error) {
	if len(path) == 0 {
		return nv, nil
	}
	i := path[0]
	switch x := v.(type) {
	case Struct:
		if i >= len(x.F) {
			return nil, fmt.Errorf("field %d out of range", i)
		}
		f := make([]Value, len(x.F))
		copy(f, x.F)
		sub, err := setPath(f[i], path[1:], nv)
		if err != nil {
			return nil, err
		}
		f[i] = sub
		return Struct{F: f}, nil
	case Array:
		if i >= len(x.E) {
			return nil, fmt.Errorf("index %d out of range", i)
		}
		e := make([]Value, len(x.E))
		copy(e, x.E)
		sub, err := setPath(e[i], path[1:], nv)
		if err != nil {
			return nil, err
		}
		e[i] = sub
		return Array{E: e}, nil
	}
	return nil, fmt.Errorf("setPath into non-aggregate %T", v)
}

// ---------------------------------------------------------------- types

func bitsOf(t types.Type) (w int, signed bool, ok bool) {
	b, isB := t.Underlying().(*types.Basic)
	if !isB {
		return 0, false, false
	}
	switch b.Kind() {
	case types.Int, types.Int64, types.UntypedInt:
		return 64, true, true
	case types.Uint, types.Uint64, types.Uintptr:
		return 64, false, true
	case types.Int32, types.UntypedRune:
		return 32, true, true
	case types.Uint32:
		return 32, false, true
	case types.Int16:
		return 16, true, true
	case types.Uint16:
		return 16, false, true
	case types.Int8:
		return 8, true, true
	case types.Uint8:
		return 8, false, true
	case types.UnsafePointer:
		return 0, false, false
	}
	return 0, false, false
}

func isByteSlice(t types.Type) bool {
	s, ok := t.Underlying().(*types.Slice)
	if !ok {
		return false
	}
	b, ok := s.Elem().Underlying().(*types.Basic)
	return ok && b.Kind() == types.Uint8
}

func isString(t types.Type) bool {
	b, ok := t.Underlying().(*types.Basic)
	return ok && b.Info()&types.IsString != 0
}

func isBool(t types.Type) bool {
	b, ok := t.Underlying().(*types.Basic)
	return ok && b.Info()&types.IsBoolean != 0
}

var zero64 = smt.BV(0, 64)

func Zero(t types.Type) Value {
	switch u := t.Underlying().(type) {
	case *types.Basic:
		if u.Info()&types.IsBoolean != 0 {
			return smt.False
		}
		if u.Info()&types.IsString != 0 {
			e := ""
			return Str{Off: zero64, Len: zero64, Lit: &e}
		}
		if w, _, ok := bitsOf(t); ok {
			return smt.BV(0, w)
		}
		if u.Kind() == types.UnsafePointer {
			return Ptr{}
		}
		if u.Kind() == types.UntypedNil {
			return Ptr{}
		}
		return Opaque{T: t, Why: "zero of " + t.String()}
	case *types.Pointer:
		return Ptr{}
	case *types.Slice:
		if isByteSlice(t) {
			return Slice{Off: zero64, Len: zero64, Cap: zero64}
		}
		return GSlice{}
	case *types.Struct:
		f := make([]Value, u.NumFields())
		for i := range f {
			f[i] = Zero(u.Field(i).Type())
		}
		return Struct{F: f}
	case *types.Array:
		e := make([]Value, u.Len())
		z := Zero(u.Elem())
		for i := range e {
			e[i] = z
		}
		return Array{E: e}
	case *types.Interface:
		return Iface{}
	case *types.Signature:
		return Func{}
	case *types.Chan:
		return Chan{}
	case *types.Map:
		return Map{}
	case *types.Tuple:
		e := make([]Value, u.Len())
		for i := range e {
			e[i] = Zero(u.At(i).Type())
		}
		return Tuple{E: e}
	}
	return Opaque{T: t, Why: "zero of " + t.String()}
}

func vstr(v Value) string {
	switch x := v.(type) {
	case *smt.Term:
		s := x.String()
		if len(s) > 80 {
			s = s[:80] + "…"
		}
		return s
	case Ptr:
		if x.ID == 0 {
			return "nil"
		}
		return fmt.Sprintf("&o%d%v", x.ID, x.Path)
	case Slice:
		return fmt.Sprintf("[]byte{o%d off=%s len=%s cap=%s}", x.ID, vstr(x.Off), vstr(x.Len), vstr(x.Cap))
	case GSlice:
		return fmt.Sprintf("slice{o%d %d:%d:%d}", x.ID, x.Off, x.Len, x.Cap)
	case Str:
		if x.Lit != nil {
			return fmt.Sprintf("%q", *x.Lit)
		}
		return fmt.Sprintf("str{o%d}", x.ID)
	case Iface:
		if x.T == nil {
			return "nil-iface"
		}
		return fmt.Sprintf("iface{%s %s}", x.T, vstr(x.V))
	case Func:
		if x.Fn == nil && x.Builtin == "" {
			return "nil-func"
		}
		if x.Fn != nil {
			return "func " + x.Fn.String()
		}
		return "builtin " + x.Builtin
	case Struct:
		var p []string
		for _, f := range x.F {
			p = append(p, vstr(f))
		}
		return "{" + strings.Join(p, ",") + "}"
	case Array:
		return fmt.Sprintf("array[%d]", len(x.E))
	case Tuple:
		var p []string
		for _, f := range x.E {
			p = append(p, vstr(f))
		}
		return "(" + strings.Join(p, ",") + ")"
	case Chan:
		return fmt.Sprintf("chan o%d", x.ID)
	case Opaque:
		return "opaque(" + x.Why + ")"
	case nil:
		return "<nil-value>"
	}
	return fmt.Sprintf("%T", v)
}
