package sym

import (
	"fmt"

	"verif/engine/smt"
)

// Byte-range equality by structural decomposition. Instead of one monolithic query over
// ite/UF terms with a Skolem index (1–5 s each on 64-bit arithmetic), the write-logs of the
// two sides are peeled layer by layer; every step asks the solver a small arithmetic
// entailment (containment / disjointness of ranges). Where neither is entailed the state is
// forked on the condition, so each leaf is decided exactly. A residual Skolem formula is
// produced only when two different leaf contents are compared.

type ropePiece struct {
	c         *ByteFn
	off       *smt.Term
	n         *smt.Term
	committed bool // already-flushed bytes of an appended donor: not subject to MallocAck
}

type ropeVal struct {
	p []ropePiece
}

type forkNeeded struct{}

func (forkNeeded) Error() string { return "fork" }

// decide: does the path condition fix cond? If not, fork: the sibling (with ¬cond) re-executes
// the current instruction, this state continues with cond.
func (r *Run) decide(st *State, cond *smt.Term) bool {
	if cond.IsTrue() {
		return true
	}
	if cond.IsFalse() {
		return false
	}
	if v, ok := st.KnownVal(cond); ok {
		return v
	}
	if r.sat(st, smt.Not(cond)) == smt.Unsat {
		st.learn(cond, true)
		return true
	}
	if r.sat(st, cond) == smt.Unsat {
		st.learn(cond, false)
		return false
	}
	o := st.Fork()
	o.Assume(smt.Not(cond))
	r.work = append(r.work, o)
	st.Assume(cond)
	return true
}

func leaf(f *ByteFn) bool { return f.kind == bkBase || f.kind == bkZero || f.kind == bkConst }

// peel descends f for the range [a, a+n) (n > 0 known) until a leaf or a layer the range
// straddles. Returns the remaining fn, offset, and for a straddle the split point k
// (0 < k < n as a term), else nil.
func (r *Run) peel(st *State, f *ByteFn, a, n *smt.Term) (*ByteFn, *smt.Term, *smt.Term) {
	for !leaf(f) {
		switch f.kind {
		case bkWrite:
			in := smt.And(smt.ULe(a, f.idx), smt.ULt(f.idx, smt.Add(a, n)))
			if !r.decide(st, in) {
				f = f.prev
				continue
			}
			// the written byte lies inside the range: split around it
			if r.decide(st, smt.Eq(f.idx, a)) {
				if r.decide(st, smt.Eq(n, smt.BV(1, 64))) {
					// single byte: represent as a one-byte leaf through a zero fn + write
					return f, a, nil
				}
				return f, a, smt.BV(1, 64)
			}
			return f, a, smt.Sub(f.idx, a)
		case bkCopy:
			end := smt.Add(a, n)
			dEnd := smt.Add(f.dOff, f.n)
			if r.decide(st, smt.Or(smt.ULe(end, f.dOff), smt.ULe(dEnd, a), smt.Eq(f.n, zero64))) {
				f = f.prev
				continue
			}
			// overlapping
			startIn := r.decide(st, smt.ULe(f.dOff, a))
			if !startIn {
				// range starts before the copied region: split at dOff
				return f, a, smt.Sub(f.dOff, a)
			}
			endIn := r.decide(st, smt.ULe(end, dEnd))
			if !endIn {
				return f, a, smt.Sub(dEnd, a)
			}
			a = smt.Add(f.sOff, smt.Sub(a, f.dOff))
			f = f.src
			continue
		}
	}
	return f, a, nil
}

// eqRange returns a Bool term equivalent (under the path condition, possibly strengthened by
// forks) to ∀i<n: A[a+i] == B[b+i].
func (r *Run) eqRange(st *State, A *ByteFn, a *smt.Term, B *ByteFn, b *smt.Term, n *smt.Term, depth int) *smt.Term {
	if depth > 64 {
		return r.skolemEq(A, a, B, b, n)
	}
	if !r.decide(st, smt.SLt(zero64, n)) {
		return smt.True
	}
	if A == B && smt.Same(a, b) {
		return smt.True
	}
	fa, oa, ka := r.peel(st, A, a, n)
	if ka != nil {
		return smt.And(r.eqRange(st, fa, oa, B, b, ka, depth+1),
			r.eqRange(st, fa, smt.Add(oa, ka), B, smt.Add(b, ka), smt.Sub(n, ka), depth+1))
	}
	fb, ob, kb := r.peel(st, B, b, n)
	if kb != nil {
		return smt.And(r.eqRange(st, fa, oa, fb, ob, kb, depth+1),
			r.eqRange(st, fa, smt.Add(oa, kb), fb, smt.Add(ob, kb), smt.Sub(n, kb), depth+1))
	}
	if fa == fb {
		if smt.Same(oa, ob) {
			return smt.True
		}
		if fa.kind == bkZero {
			return smt.True
		}
		if r.decide(st, smt.Eq(oa, ob)) {
			return smt.True
		}
		return r.skolemEq(fa, oa, fb, ob, n)
	}
	if fa.kind == bkBase && fb.kind == bkBase && fa.name == fb.name {
		if r.decide(st, smt.Eq(oa, ob)) {
			return smt.True
		}
	}
	return r.skolemEq(fa, oa, fb, ob, n)
}

func (r *Run) skolemEq(A *ByteFn, a *smt.Term, B *ByteFn, b *smt.Term, n *smt.Term) *smt.Term {
	j := smt.Var(r.Eng.Fresh("sk"), 64)
	return smt.Implies(smt.ULt(j, n), smt.Eq(A.Read(smt.Add(a, j)), B.Read(smt.Add(b, j))))
}

// ropeMatch: p (content A at a, length n) equals rope[pos, pos+n).
func (r *Run) ropeMatch(st *State, rp ropeVal, pos *smt.Term, A *ByteFn, a, n *smt.Term) *smt.Term {
	if !r.decide(st, smt.SLt(zero64, n)) {
		return smt.True
	}
	acc := smt.True
	pre := zero64
	end := smt.Add(pos, n)
	covered := zero64
	for _, pc := range rp.p {
		pEnd := smt.Add(pre, pc.n)
		// no overlap?
		if r.decide(st, smt.Or(smt.SLe(pc.n, zero64), smt.SLe(end, pre), smt.SLe(pEnd, pos))) {
			pre = pEnd
			continue
		}
		var s, e *smt.Term // overlap [s,e) in stream coordinates
		if r.decide(st, smt.SLe(pre, pos)) {
			s = pos
		} else {
			s = pre
		}
		if r.decide(st, smt.SLe(end, pEnd)) {
			e = end
		} else {
			e = pEnd
		}
		ln := smt.Sub(e, s)
		acc = smt.And(acc, r.eqRange(st, A, smt.Add(a, smt.Sub(s, pos)), pc.c, smt.Add(pc.off, smt.Sub(s, pre)), ln, 0))
		covered = smt.Add(covered, ln)
		pre = pEnd
	}
	// the whole of p must have been covered by the rope
	return smt.And(acc, smt.Eq(covered, n))
}

func (r *Run) ropeLen(rp ropeVal) *smt.Term {
	t := zero64
	for _, p := range rp.p {
		t = smt.Add(t, p.n)
	}
	return t
}

func (r *Run) ropeByte(rp ropeVal, pos *smt.Term) *smt.Term {
	var out *smt.Term = smt.BV(0, 8)
	pre := zero64
	type ent struct {
		in *smt.Term
		v  *smt.Term
	}
	var es []ent
	for _, p := range rp.p {
		in := smt.And(smt.SLe(pre, pos), smt.SLt(pos, smt.Add(pre, p.n)))
		es = append(es, ent{in, p.c.Read(smt.Add(p.off, smt.Sub(pos, pre)))})
		pre = smt.Add(pre, p.n)
	}
	for i := len(es) - 1; i >= 0; i-- {
		out = smt.Ite(es[i].in, es[i].v, out)
	}
	return out
}

func (st *State) rope(id uint64) (ropeVal, bool) {
	v, ok := st.Ghost[fmt.Sprintf("rope:%d", id)].(ropeVal)
	return v, ok
}

func (st *State) setRope(id uint64, v ropeVal) {
	st.Ghost[fmt.Sprintf("rope:%d", id)] = v
}
