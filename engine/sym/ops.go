package sym

import (
	"fmt"
	"go/token"
	"go/types"

	"golang.org/x/tools/go/ssa"

	"verif/engine/smt"
)

func (r *Run) unop(st *State, f *Frame, x *ssa.UnOp) error {
	v := r.get(st, x.X)
	switch x.Op {
	case token.MUL:
		p, ok := v.(Ptr)
		if !ok {
			return unknownf("deref of %s", vstr(v))
		}
		val, err := r.load(st, p, x.Type(), x.Pos())
		if err != nil {
			return err
		}
		r.set(st, x, val)
	case token.NOT:
		t, ok := v.(*smt.Term)
		if !ok {
			return unknownf("not of %s", vstr(v))
		}
		r.set(st, x, smt.Not(t))
	case token.SUB:
		t, ok := v.(*smt.Term)
		if !ok {
			r.set(st, x, Opaque{T: x.Type(), Why: "neg"})
			break
		}
		r.set(st, x, smt.Neg(t))
	case token.XOR:
		t, ok := v.(*smt.Term)
		if !ok {
			return unknownf("bitnot of %s", vstr(v))
		}
		r.set(st, x, smt.BNot(t))
	case token.ARROW:
		return r.chanRecv(st, f, x)
	default:
		return unknownf("unop %s", x.Op)
	}
	f.PC++
	return nil
}

func (r *Run) binop(st *State, op token.Token, a, b Value, xt types.Type, pos token.Pos) (Value, error) {
	ta, aok := a.(*smt.Term)
	tb, bok := b.(*smt.Term)
	if aok && bok {
		if ta.S == smt.Bool {
			switch op {
			case token.EQL:
				return smt.Eq(ta, tb), nil
			case token.NEQ:
				return smt.Ne(ta, tb), nil
			case token.AND, token.LAND:
				return smt.And(ta, tb), nil
			case token.OR, token.LOR:
				return smt.Or(ta, tb), nil
			}
			return nil, unknownf("bool binop %s", op)
		}
		_, signed, _ := bitsOf(xt)
		if op == token.SHL || op == token.SHR {
			// adapt shift amount width
			w := int(ta.S)
			if int(tb.S) < w {
				tb = smt.ZExt(tb, w)
			} else if int(tb.S) > w {
				big := smt.ULt(smt.BV(uint64(w), int(tb.S)), tb)
				tb = smt.Ite(big, smt.BV(uint64(w), w), smt.Extract(w-1, 0, tb))
			}
			if op == token.SHL {
				return smt.Shl(ta, tb), nil
			}
			if signed {
				return smt.AShr(ta, tb), nil
			}
			return smt.LShr(ta, tb), nil
		}
		if ta.S != tb.S {
			return nil, unknownf("binop width mismatch %v %v", ta.S, tb.S)
		}
		switch op {
		case token.ADD:
			return smt.Add(ta, tb), nil
		case token.SUB:
			return smt.Sub(ta, tb), nil
		case token.MUL:
			return smt.Mul(ta, tb), nil
		case token.QUO, token.REM:
			if err := r.guard(st, smt.Ne(tb, smt.BV(0, int(tb.S))), "integer divide by zero", pos); err != nil {
				return nil, err
			}
			if tb.IsConst() && !ta.IsConst() {
				q, rm := r.divByConst(st, ta, tb, signed)
				if op == token.QUO {
					return q, nil
				}
				return rm, nil
			}
			if op == token.QUO {
				if signed {
					return smt.SDiv(ta, tb), nil
				}
				return smt.UDiv(ta, tb), nil
			}
			if signed {
				return smt.SRem(ta, tb), nil
			}
			return smt.URem(ta, tb), nil
		case token.AND:
			return smt.BAnd(ta, tb), nil
		case token.OR:
			return smt.BOr(ta, tb), nil
		case token.XOR:
			return smt.BXor(ta, tb), nil
		case token.AND_NOT:
			return smt.BAnd(ta, smt.BNot(tb)), nil
		case token.EQL:
			return smt.Eq(ta, tb), nil
		case token.NEQ:
			return smt.Ne(ta, tb), nil
		case token.LSS:
			if signed {
				return smt.SLt(ta, tb), nil
			}
			return smt.ULt(ta, tb), nil
		case token.LEQ:
			if signed {
				return smt.SLe(ta, tb), nil
			}
			return smt.ULe(ta, tb), nil
		case token.GTR:
			if signed {
				return smt.SLt(tb, ta), nil
			}
			return smt.ULt(tb, ta), nil
		case token.GEQ:
			if signed {
				return smt.SLe(tb, ta), nil
			}
			return smt.ULe(tb, ta), nil
		}
		return nil, unknownf("int binop %s", op)
	}
	switch op {
	case token.EQL, token.NEQ:
		eq, err := r.valEq(st, a, b)
		if err != nil {
			return Opaque{T: types.Typ[types.Bool], Why: err.Error()}, nil
		}
		if op == token.NEQ {
			return smt.Not(eq), nil
		}
		return eq, nil
	case token.ADD:
		sa, ok1 := a.(Str)
		sb, ok2 := b.(Str)
		if ok1 && ok2 && sa.Lit != nil && sb.Lit != nil {
			s := *sa.Lit + *sb.Lit
			return Str{Off: zero64, Len: smt.BV(uint64(len(s)), 64), Lit: &s}, nil
		}
		return Opaque{T: xt, Why: "string concat"}, nil
	}
	if _, ok := a.(Opaque); ok {
		return Opaque{T: xt, Why: "binop on opaque"}, nil
	}
	if _, ok := b.(Opaque); ok {
		return Opaque{T: xt, Why: "binop on opaque"}, nil
	}
	return nil, unknownf("binop %s on %T,%T", op, a, b)
}

func (r *Run) valEq(st *State, a, b Value) (*smt.Term, error) {
	switch x := a.(type) {
	case *smt.Term:
		y, ok := b.(*smt.Term)
		if !ok || x.S != y.S {
			return nil, fmt.Errorf("eq term vs %T", b)
		}
		return smt.Eq(x, y), nil
	case Ptr:
		y, ok := b.(Ptr)
		if !ok {
			return nil, fmt.Errorf("eq ptr vs %T", b)
		}
		if x.ID != y.ID || !samePath(x.Path, y.Path) {
			return smt.False, nil
		}
		if x.Idx != nil && y.Idx != nil {
			return smt.Eq(x.Idx, y.Idx), nil
		}
		return smt.True, nil
	case Iface:
		y, ok := b.(Iface)
		if !ok {
			return nil, fmt.Errorf("eq iface vs %T", b)
		}
		if x.T == nil || y.T == nil {
			return smt.BoolC(x.T == nil && y.T == nil), nil
		}
		if !types.Identical(x.T, y.T) {
			return smt.False, nil
		}
		return r.valEq(st, x.V, y.V)
	case Func:
		y, ok := b.(Func)
		if !ok {
			return nil, fmt.Errorf("eq func vs %T", b)
		}
		xn := x.Fn == nil && x.Builtin == ""
		yn := y.Fn == nil && y.Builtin == ""
		if xn || yn {
			return smt.BoolC(xn && yn), nil
		}
		return nil, fmt.Errorf("func compare")
	case Slice:
		if g, isG := b.(GSlice); isG {
			// a byte slice and a generic slice can only be compared with nil
			if x.ID == 0 || g.ID == 0 {
				return smt.BoolC(x.ID == 0 && g.ID == 0), nil
			}
			return nil, fmt.Errorf("slice compare")
		}
		y, ok := b.(Slice)
		if !ok {
			return nil, fmt.Errorf("eq slice vs %T", b)
		}
		if x.ID == 0 || y.ID == 0 {
			return smt.BoolC(x.ID == 0 && y.ID == 0), nil
		}
		return nil, fmt.Errorf("slice compare")
	case GSlice:
		if sl, isS := b.(Slice); isS {
			if x.ID == 0 || sl.ID == 0 {
				return smt.BoolC(x.ID == 0 && sl.ID == 0), nil
			}
			return nil, fmt.Errorf("slice compare")
		}
		y, ok := b.(GSlice)
		if !ok {
			return nil, fmt.Errorf("eq gslice vs %T", b)
		}
		if x.ID == 0 || y.ID == 0 {
			return smt.BoolC(x.ID == 0 && y.ID == 0), nil
		}
		return nil, fmt.Errorf("slice compare")
	case Chan:
		y, ok := b.(Chan)
		if !ok {
			return nil, fmt.Errorf("eq chan vs %T", b)
		}
		return smt.BoolC(x.ID == y.ID), nil
	case Map:
		y, ok := b.(Map)
		if !ok {
			return nil, fmt.Errorf("eq map vs %T", b)
		}
		return smt.BoolC(x.ID == y.ID), nil
	case Str:
		y, ok := b.(Str)
		if !ok {
			return nil, fmt.Errorf("eq str vs %T", b)
		}
		if x.Lit != nil && y.Lit != nil {
			return smt.BoolC(*x.Lit == *y.Lit), nil
		}
		if x.Len.IsConst() && y.Len.IsConst() && x.Len.C != y.Len.C {
			return smt.False, nil
		}
		return nil, fmt.Errorf("symbolic string compare")
	case Struct:
		y, ok := b.(Struct)
		if !ok || len(x.F) != len(y.F) {
			return nil, fmt.Errorf("eq struct vs %T", b)
		}
		acc := smt.True
		for i := range x.F {
			e, err := r.valEq(st, x.F[i], y.F[i])
			if err != nil {
				return nil, err
			}
			acc = smt.And(acc, e)
		}
		return acc, nil
	case Array:
		y, ok := b.(Array)
		if !ok || len(x.E) != len(y.E) {
			return nil, fmt.Errorf("eq array vs %T", b)
		}
		acc := smt.True
		for i := range x.E {
			e, err := r.valEq(st, x.E[i], y.E[i])
			if err != nil {
				return nil, err
			}
			acc = smt.And(acc, e)
		}
		return acc, nil
	}
	return nil, fmt.Errorf("eq on %T", a)
}

func (r *Run) convert(st *State, v Value, from, to types.Type) (Value, error) {
	if t, ok := v.(*smt.Term); ok && t.S != smt.Bool {
		wt, _, okT := bitsOf(to)
		_, sf, okF := bitsOf(from)
		if okT && okF {
			if int(t.S) == wt {
				return t, nil
			}
			if int(t.S) > wt {
				return smt.Extract(wt-1, 0, t), nil
			}
			if sf {
				return smt.SExt(t, wt), nil
			}
			return smt.ZExt(t, wt), nil
		}
		if isString(to) {
			return Opaque{T: to, Why: "string(int)"}, nil
		}
		if b, ok := to.Underlying().(*types.Basic); ok && b.Kind() == types.UnsafePointer {
			return Opaque{T: to, Why: "uintptr->unsafe.Pointer"}, nil
		}
		return Opaque{T: to, Why: "int conversion to " + to.String()}, nil
	}
	switch x := v.(type) {
	case Str:
		if isByteSlice(to) {
			id, off := r.strBlock(st, x)
			src := st.Heap.Get(id)
			nb := st.NewBlock(x.Len, (&ByteFn{kind: bkZero}).copyIn(zero64, x.Len, src.Content, off), "conv")
			return Slice{ID: nb.ID, Off: zero64, Len: x.Len, Cap: x.Len}, nil
		}
		if isString(to) {
			return x, nil
		}
	case Slice:
		if isString(to) {
			if x.ID == 0 {
				e := ""
				return Str{Off: zero64, Len: zero64, Lit: &e}, nil
			}
			src := st.Heap.Get(x.ID)
			nb := st.NewBlock(x.Len, (&ByteFn{kind: bkZero}).copyIn(zero64, x.Len, src.Content, x.Off), "conv")
			return Str{ID: nb.ID, Off: zero64, Len: x.Len}, nil
		}
		if isByteSlice(to) {
			return x, nil
		}
	case Ptr:
		// pointer <-> unsafe.Pointer
		if _, ok := to.Underlying().(*types.Pointer); ok {
			return x, nil
		}
		if b, ok := to.Underlying().(*types.Basic); ok {
			if b.Kind() == types.UnsafePointer {
				return x, nil
			}
			if b.Kind() == types.Uintptr {
				return Opaque{T: to, Why: "uintptr(pointer)"}, nil
			}
		}
	case Opaque:
		return Opaque{T: to, Why: x.Why}, nil
	case GSlice, Func, Chan, Iface, Struct, Array:
		return v, nil
	}
	return Opaque{T: to, Why: fmt.Sprintf("convert %T to %s", v, to)}, nil
}

// strBlock materialises a literal string as a byte block.
func (r *Run) strBlock(st *State, s Str) (int, *smt.Term) {
	if s.ID != 0 {
		return s.ID, s.Off
	}
	lit := ""
	if s.Lit != nil {
		lit = *s.Lit
	}
	key := "strlit:" + lit
	if v, ok := st.Ghost[key]; ok {
		return v.(Ptr).ID, zero64
	}
	b := st.NewBlock(smt.BV(uint64(len(lit)), 64), &ByteFn{kind: bkConst, consts: []byte(lit)}, "const")
	b.Thread = -1
	st.Ghost[key] = Ptr{ID: b.ID}
	return b.ID, zero64
}

func inRange(i, n *smt.Term) *smt.Term { return smt.ULt(i, n) }

func (r *Run) intArg(st *State, v ssa.Value) (*smt.Term, error) {
	t, ok := r.get(st, v).(*smt.Term)
	if !ok {
		return nil, unknownf("expected int got %s", vstr(r.get(st, v)))
	}
	if int(t.S) != 64 && t.S != smt.Bool {
		_, s, _ := bitsOf(v.Type())
		if s {
			t = smt.SExt(t, 64)
		} else {
			t = smt.ZExt(t, 64)
		}
	}
	return t, nil
}

func (r *Run) indexAddr(st *State, f *Frame, x *ssa.IndexAddr) error {
	base := r.get(st, x.X)
	idx, err := r.intArg(st, x.Index)
	if err != nil {
		return err
	}
	switch b := base.(type) {
	case Slice:
		if err := r.guard(st, inRange(idx, b.Len), "index out of range (byte slice)", x.Pos()); err != nil {
			return err
		}
		r.set(st, x, Ptr{ID: b.ID, Idx: smt.Add(b.Off, idx)})
	case GSlice:
		if err := r.guard(st, inRange(idx, smt.BV(uint64(b.Len), 64)), "index out of range", x.Pos()); err != nil {
			return err
		}
		k, err := r.concretize(st, idx, 0, int64(b.Len)-1, "slice index")
		if err != nil {
			return err
		}
		p := Ptr{ID: b.ID, Path: b.Path}
		r.set(st, x, p.sub(b.Off+int(k)))
	case Ptr:
		if b.ID == 0 {
			return r.startPanic(st, "nil pointer dereference (index)", x.Pos())
		}
		o := st.Heap.Get(b.ID)
		if o != nil && o.Kind == OBytes {
			if err := r.guard(st, inRange(idx, o.Cap), "index out of range (byte array)", x.Pos()); err != nil {
				return err
			}
			r.set(st, x, Ptr{ID: b.ID, Idx: idx})
			break
		}
		at, ok := x.X.Type().Underlying().(*types.Pointer).Elem().Underlying().(*types.Array)
		if !ok {
			return unknownf("indexaddr on pointer to %s", x.X.Type())
		}
		if err := r.guard(st, inRange(idx, smt.BV(uint64(at.Len()), 64)), "index out of range (array)", x.Pos()); err != nil {
			return err
		}
		k, err := r.concretize(st, idx, 0, at.Len()-1, "array index")
		if err != nil {
			return err
		}
		r.set(st, x, b.sub(int(k)))
	default:
		return unknownf("indexaddr on %s", vstr(base))
	}
	f.PC++
	return nil
}

func (r *Run) index(st *State, f *Frame, x *ssa.Index) error {
	base := r.get(st, x.X)
	idx, err := r.intArg(st, x.Index)
	if err != nil {
		return err
	}
	switch b := base.(type) {
	case Array:
		if err := r.guard(st, inRange(idx, smt.BV(uint64(len(b.E)), 64)), "index out of range", x.Pos()); err != nil {
			return err
		}
		k, err := r.concretize(st, idx, 0, int64(len(b.E))-1, "array index")
		if err != nil {
			return err
		}
		r.set(st, x, b.E[k])
	case Str:
		if err := r.guard(st, inRange(idx, b.Len), "index out of range (string)", x.Pos()); err != nil {
			return err
		}
		id, off := r.strBlock(st, b)
		r.set(st, x, st.Heap.Get(id).Content.Read(smt.Add(off, idx)))
	default:
		return unknownf("index on %s", vstr(base))
	}
	f.PC++
	return nil
}

func (r *Run) optInt(st *State, v ssa.Value, def *smt.Term) (*smt.Term, error) {
	if v == nil {
		return def, nil
	}
	return r.intArg(st, v)
}

func (r *Run) sliceOp(st *State, f *Frame, x *ssa.Slice) error {
	base := r.get(st, x.X)
	switch b := base.(type) {
	case Slice:
		lo, err := r.optInt(st, x.Low, zero64)
		if err != nil {
			return err
		}
		hi, err := r.optInt(st, x.High, b.Len)
		if err != nil {
			return err
		}
		mx, err := r.optInt(st, x.Max, b.Cap)
		if err != nil {
			return err
		}
		ok := smt.And(smt.ULe(lo, hi), smt.ULe(hi, mx), smt.ULe(mx, b.Cap))
		if err := r.guard(st, ok, "slice bounds out of range", x.Pos()); err != nil {
			return err
		}
		r.set(st, x, Slice{ID: b.ID, Off: smt.Add(b.Off, lo), Len: smt.Sub(hi, lo), Cap: smt.Sub(mx, lo)})
	case Str:
		lo, err := r.optInt(st, x.Low, zero64)
		if err != nil {
			return err
		}
		hi, err := r.optInt(st, x.High, b.Len)
		if err != nil {
			return err
		}
		ok := smt.And(smt.ULe(lo, hi), smt.ULe(hi, b.Len))
		if err := r.guard(st, ok, "slice bounds out of range (string)", x.Pos()); err != nil {
			return err
		}
		ns := Str{ID: b.ID, Off: smt.Add(b.Off, lo), Len: smt.Sub(hi, lo)}
		if b.Lit != nil && lo.IsConst() && hi.IsConst() {
			s := (*b.Lit)[lo.C:hi.C]
			ns.Lit = &s
			if b.ID == 0 {
				ns.Off = zero64
			}
		} else if b.ID == 0 {
			id, off := r.strBlock(st, b)
			ns.ID = id
			ns.Off = smt.Add(off, lo)
		}
		r.set(st, x, ns)
	case GSlice:
		lo, hi, mx, err := r.concBounds(st, x, b.Len, b.Cap)
		if err != nil {
			return err
		}
		if !(0 <= lo && lo <= hi && hi <= mx && mx <= b.Cap) {
			return r.startPanic(st, "slice bounds out of range", x.Pos())
		}
		if b.ID == 0 {
			r.set(st, x, GSlice{})
		} else {
			r.set(st, x, GSlice{ID: b.ID, Path: b.Path, Off: b.Off + lo, Len: hi - lo, Cap: mx - lo})
		}
	case Ptr:
		if b.ID == 0 {
			return r.startPanic(st, "nil pointer dereference (slice of array)", x.Pos())
		}
		o := st.Heap.Get(b.ID)
		if o != nil && o.Kind == OBytes {
			lo, err := r.optInt(st, x.Low, zero64)
			if err != nil {
				return err
			}
			hi, err := r.optInt(st, x.High, o.Cap)
			if err != nil {
				return err
			}
			mx, err := r.optInt(st, x.Max, o.Cap)
			if err != nil {
				return err
			}
			ok := smt.And(smt.ULe(lo, hi), smt.ULe(hi, mx), smt.ULe(mx, o.Cap))
			if err := r.guard(st, ok, "slice bounds out of range", x.Pos()); err != nil {
				return err
			}
			r.set(st, x, Slice{ID: b.ID, Off: lo, Len: smt.Sub(hi, lo), Cap: smt.Sub(mx, lo)})
			break
		}
		at, ok := x.X.Type().Underlying().(*types.Pointer).Elem().Underlying().(*types.Array)
		if !ok {
			return unknownf("slice of pointer to %s", x.X.Type())
		}
		n := int(at.Len())
		lo, hi, mx, err := r.concBounds(st, x, n, n)
		if err != nil {
			return err
		}
		if !(0 <= lo && lo <= hi && hi <= mx && mx <= n) {
			return r.startPanic(st, "slice bounds out of range", x.Pos())
		}
		r.set(st, x, GSlice{ID: b.ID, Path: b.Path, Off: lo, Len: hi - lo, Cap: mx - lo})
	default:
		return unknownf("slice of %s", vstr(base))
	}
	f.PC++
	return nil
}

func (r *Run) concBounds(st *State, x *ssa.Slice, ln, cp int) (lo, hi, mx int, err error) {
	lo, hi, mx = 0, ln, cp
	get := func(v ssa.Value, def int) (int, error) {
		if v == nil {
			return def, nil
		}
		t, err := r.intArg(st, v)
		if err != nil {
			return 0, err
		}
		k, err := r.concretize(st, t, -1, int64(cp)+1, "slice bound")
		return int(k), err
	}
	if lo, err = get(x.Low, 0); err != nil {
		return
	}
	if hi, err = get(x.High, ln); err != nil {
		return
	}
	if mx, err = get(x.Max, cp); err != nil {
		return
	}
	return
}

func (r *Run) makeSlice(st *State, f *Frame, x *ssa.MakeSlice) error {
	ln, err := r.intArg(st, x.Len)
	if err != nil {
		return err
	}
	cp, err := r.intArg(st, x.Cap)
	if err != nil {
		return err
	}
	if isByteSlice(x.Type()) {
		ok := smt.And(smt.SLe(zero64, ln), smt.SLe(ln, cp))
		if err := r.guard(st, ok, "makeslice: len out of range", x.Pos()); err != nil {
			return err
		}
		b := st.NewBlock(cp, &ByteFn{kind: bkZero}, "make")
		r.set(st, x, Slice{ID: b.ID, Off: zero64, Len: ln, Cap: cp})
		f.PC++
		return nil
	}
	if err := r.guard(st, smt.And(smt.SLe(zero64, ln), smt.SLe(ln, cp)), "makeslice: len out of range", x.Pos()); err != nil {
		return err
	}
	c, err := r.concretize(st, cp, 0, 64, "make cap")
	if err != nil {
		return err
	}
	l, err := r.concretize(st, ln, 0, c, "make len")
	if err != nil {
		return err
	}
	et := x.Type().Underlying().(*types.Slice).Elem()
	e := make([]Value, c)
	z := Zero(et)
	for i := range e {
		e[i] = z
	}
	o := st.NewObj(types.NewArray(et, c), Array{E: e}, st.pos(x.Pos()))
	r.set(st, x, GSlice{ID: o.ID, Off: 0, Len: int(l), Cap: int(c)})
	f.PC++
	return nil
}

func (r *Run) typeAssert(st *State, f *Frame, x *ssa.TypeAssert) error {
	v := r.get(st, x.X)
	ifc, ok := v.(Iface)
	if !ok {
		if op, isOp := v.(Opaque); isOp {
			if x.CommaOk {
				r.set(st, x, Tuple{E: []Value{Opaque{T: x.AssertedType, Why: op.Why}, Opaque{T: types.Typ[types.Bool], Why: op.Why}}})
			} else {
				r.set(st, x, Opaque{T: x.AssertedType, Why: op.Why})
			}
			f.PC++
			return nil
		}
		return unknownf("typeassert on %T", v)
	}
	var okb bool
	var res Value
	if it, isI := x.AssertedType.Underlying().(*types.Interface); isI {
		okb = ifc.T != nil && types.Implements(ifc.T, it)
		if okb {
			res = ifc
		} else {
			res = Iface{}
		}
	} else {
		okb = ifc.T != nil && types.Identical(ifc.T, x.AssertedType)
		if okb {
			res = ifc.V
		} else {
			res = Zero(x.AssertedType)
		}
	}
	if x.CommaOk {
		r.set(st, x, Tuple{E: []Value{res, smt.BoolC(okb)}})
	} else {
		if !okb {
			return r.startPanic(st, fmt.Sprintf("interface conversion: %v is not %s", ifc.T, x.AssertedType), x.Pos())
		}
		r.set(st, x, res)
	}
	f.PC++
	return nil
}

// ---------------------------------------------------------------- channels (sequential semantics)

func (r *Run) chanObj(st *State, v Value) (*Object, error) {
	c, ok := v.(Chan)
	if !ok {
		return nil, unknownf("channel op on %T", v)
	}
	if c.ID == 0 {
		return nil, pathEnd{EndBlocked, "operation on nil channel"}
	}
	return st.Heap.Get(c.ID), nil
}

func (r *Run) chanSend(st *State, f *Frame, x *ssa.Send) error {
	if st.Hook != nil {
		if h, ok := st.Hook.(ChanHook); ok {
			done, err := h.Send(st, r.get(st, x.Chan), r.get(st, x.X), x.Pos())
			if err != nil {
				return err
			}
			if done {
				f.PC++
				return nil
			}
		}
	}
	o, err := r.chanObj(st, r.get(st, x.Chan))
	if err != nil {
		return err
	}
	if o.Closed {
		return r.startPanic(st, "send on closed channel", x.Pos())
	}
	if len(o.Buf) >= o.ChanCap {
		return pathEnd{EndBlocked, "send on full channel at " + st.pos(x.Pos())}
	}
	n := *o
	n.Buf = append(append([]Value(nil), o.Buf...), r.get(st, x.X))
	st.Heap.Put(&n)
	f.PC++
	return nil
}

func (r *Run) chanRecv(st *State, f *Frame, x *ssa.UnOp) error {
	if st.Hook != nil {
		if h, ok := st.Hook.(ChanHook); ok {
			v, okv, done, err := h.Recv(st, r.get(st, x.X), x.Type(), x.CommaOk, x.Pos())
			if err != nil {
				return err
			}
			if done {
				if x.CommaOk {
					r.set(st, x, Tuple{E: []Value{v, okv}})
				} else {
					r.set(st, x, v)
				}
				f.PC++
				return nil
			}
		}
	}
	o, err := r.chanObj(st, r.get(st, x.X))
	if err != nil {
		return err
	}
	et := x.X.Type().Underlying().(*types.Chan).Elem()
	var v Value
	okv := smt.True
	if len(o.Buf) > 0 {
		v = o.Buf[0]
		n := *o
		n.Buf = append([]Value(nil), o.Buf[1:]...)
		st.Heap.Put(&n)
	} else if o.Closed {
		v = Zero(et)
		okv = smt.False
	} else {
		return pathEnd{EndBlocked, "receive on empty channel at " + st.pos(x.Pos())}
	}
	if x.CommaOk {
		r.set(st, x, Tuple{E: []Value{v, okv}})
	} else {
		r.set(st, x, v)
	}
	f.PC++
	return nil
}

// ChanHook is implemented by PO-mode hooks.
type ChanHook interface {
	Send(st *State, ch Value, v Value, pos token.Pos) (bool, error)
	Recv(st *State, ch Value, t types.Type, commaOk bool, pos token.Pos) (Value, Value, bool, error)
	Select(st *State, r *Run, x *ssa.Select) (bool, error)
}

func (r *Run) selectOp(st *State, f *Frame, x *ssa.Select) error {
	if st.Hook != nil {
		if h, ok := st.Hook.(ChanHook); ok {
			done, err := h.Select(st, r, x)
			if err != nil {
				return err
			}
			if done {
				return nil
			}
		}
	}
	// result tuple: (index int, recvOk bool, recv values...)
	nrecv := 0
	for _, s := range x.States {
		if s.Dir == types.RecvOnly {
			nrecv++
		}
	}
	type ready struct {
		i int
	}
	var rd []int
	for i, s := range x.States {
		cv, ok := r.get(st, s.Chan).(Chan)
		if !ok {
			return unknownf("select on %T", r.get(st, s.Chan))
		}
		if cv.ID == 0 {
			continue
		}
		o := st.Heap.Get(cv.ID)
		if s.Dir == types.SendOnly {
			if o.Closed || len(o.Buf) < o.ChanCap {
				rd = append(rd, i)
			}
		} else {
			if len(o.Buf) > 0 || o.Closed {
				rd = append(rd, i)
			}
		}
	}
	mk := func(s *State, choice int) error {
		res := make([]Value, 2+nrecv)
		res[0] = smt.BVs(int64(choice), 64)
		res[1] = smt.False
		k := 0
		for i, sel := range x.States {
			if sel.Dir != types.RecvOnly {
				continue
			}
			et := sel.Chan.Type().Underlying().(*types.Chan).Elem()
			res[2+k] = Zero(et)
			if i == choice {
				cv := r.get(s, sel.Chan).(Chan)
				o := s.Heap.Get(cv.ID)
				if len(o.Buf) > 0 {
					res[2+k] = o.Buf[0]
					res[1] = smt.True
					n := *o
					n.Buf = append([]Value(nil), o.Buf[1:]...)
					s.Heap.Put(&n)
				}
			}
			k++
		}
		if choice >= 0 && x.States[choice].Dir == types.SendOnly {
			sel := x.States[choice]
			cv := r.get(s, sel.Chan).(Chan)
			o := s.Heap.Get(cv.ID)
			if o.Closed {
				return r.startPanic(s, "send on closed channel", x.Pos())
			}
			n := *o
			n.Buf = append(append([]Value(nil), o.Buf...), r.get(s, sel.Send))
			s.Heap.Put(&n)
		}
		r.set(s, x, Tuple{E: res})
		s.top().PC++
		return nil
	}
	if len(rd) == 0 {
		if !x.Blocking {
			return mk(st, -1)
		}
		return pathEnd{EndBlocked, "select with no ready case at " + st.pos(x.Pos())}
	}
	for _, c := range rd[1:] {
		o := st.Fork()
		if err := mk(o, c); err == nil {
			r.work = append(r.work, o)
		}
	}
	return mk(st, rd[0])
}


// divByConst encodes x / c and x % c (c a non-zero constant) with fresh q, r and the
// defining constraints x = q*c + r, |r| < |c|, sign(r) = sign(x), q bounded so that nothing
// wraps. This avoids the bit-blasted divider, on which all three solvers stall.
func (r *Run) divByConst(st *State, x, c *smt.Term, signed bool) (*smt.Term, *smt.Term) {
	w := int(x.S)
	q := smt.Var(r.Eng.Fresh("divq"), x.S)
	rm := smt.Var(r.Eng.Fresh("divr"), x.S)
	defer r.divLemma(st, x, c, q, rm, signed)
	if !signed {
		maxq := smt.BV((^uint64(0)&maskW(w))/c.C, w)
		st.Assume(smt.And(smt.Eq(x, smt.Add(smt.Mul(q, c), rm)), smt.ULt(rm, c), smt.ULe(q, maxq)))
		return q, rm
	}
	cv := c.SVal()
	ac := cv
	if ac < 0 {
		ac = -ac
	}
	if cv == -1 || ac == 1 {
		// x / 1, x / -1
		if cv == 1 {
			return x, smt.BV(0, w)
		}
		return smt.Neg(x), smt.BV(0, w)
	}
	maxv := int64(1)<<(uint(w)-1) - 1
	lim := smt.BVs(maxv/ac+1, w)
	nlim := smt.BVs(-(maxv/ac + 1), w)
	zero := smt.BV(0, w)
	acT := smt.BVs(ac, w)
	nonneg := smt.SLe(zero, x)
	st.Assume(smt.And(
		smt.Eq(x, smt.Add(smt.Mul(q, c), rm)),
		smt.SLe(nlim, q), smt.SLe(q, lim),
		smt.Ite(nonneg, smt.And(smt.SLe(zero, rm), smt.SLt(rm, acT)), smt.And(smt.SLt(smt.Neg(acT), rm), smt.SLe(rm, zero))),
	))
	return q, rm
}

func maskW(w int) uint64 {
	if w >= 64 {
		return ^uint64(0)
	}
	return (uint64(1) << uint(w)) - 1
}


type divRec struct {
	x, c, q, r *smt.Term
	signed     bool
}
type divList []divRec

func splitAdd(x *smt.Term) (*smt.Term, uint64) {
	if x.Op == "bvadd" && x.Args[1].IsConst() {
		return x.Args[0], x.Args[1].C
	}
	return x, 0
}

// divLemma adds a redundant (valid) constraint relating two divisions of base+k1 and base+k2
// by the same constant: it lets the solver step remainders without re-deriving the division.
func (r *Run) divLemma(st *State, x, c, q, rm *smt.Term, signed bool) {
	var lst divList
	if v, ok := st.Ghost["divs"]; ok {
		lst = v.(divList)
	}
	b2, k2 := splitAdd(x)
	w := int(x.S)
	for _, p := range lst {
		if p.signed != signed || p.c.C != c.C || p.x.S != x.S {
			continue
		}
		b1, k1 := splitAdd(p.x)
		if b1 != b2 {
			continue
		}
		d := int64(k2 - k1)
		cv := c.SVal()
		if !signed {
			cv = int64(c.C)
		}
		if cv <= 1 {
			continue
		}
		lo, hi := p, divRec{x, c, q, rm, signed}
		if d < 0 {
			d = -d
			lo, hi = hi, lo
		}
		if d == 0 || d >= cv {
			continue
		}
		dT := smt.BVs(d, w)
		same := smt.And(smt.Eq(hi.q, lo.q), smt.Eq(hi.r, smt.Add(lo.r, dT)))
		next := smt.And(smt.Eq(hi.q, smt.Add(lo.q, smt.BV(1, w))), smt.Eq(hi.r, smt.Sub(smt.Add(lo.r, dT), c)))
		var guard *smt.Term
		if signed {
			guard = smt.And(smt.SLe(smt.BV(0, w), lo.x), smt.SLe(lo.x, hi.x))
		} else {
			guard = smt.ULe(lo.x, hi.x)
		}
		st.Assume(smt.Implies(guard, smt.Or(same, next)))
	}
	nl := append(divList(nil), lst...)
	nl = append(nl, divRec{x, c, q, rm, signed})
	st.Ghost["divs"] = nl
}
