package sym

import (
	"fmt"
	"sort"
	"strings"
	"time"

	"verif/engine/smt"
)

// SMT encoding of the per-thread event DAGs (DESIGN appendix A).

type POQuery struct {
	Name       string
	Quiescence bool
	// Goal builds the obligation formula (negated property) from the events.
	Goal func(po *PO) *smt.Term
	// Race: the goal is "two conflicting accesses of different threads, at least one of them
	// plain, are adjacent in the global order" (DESIGN 5.20); RaceExcl lists pair keys to ignore.
	Race     bool
	RaceExcl map[string]bool
}

// PORace is one statically conflicting pair of accesses.
type PORace struct {
	A, B   *POEvent
	AA, BA *POAccess
	Loc    *POLoc
	Var    *smt.Term
}

func (r PORace) Key() string {
	a, b := r.A.Pos+" "+accKind(r.AA), r.B.Pos+" "+accKind(r.BA)
	if b < a {
		a, b = b, a
	}
	return r.Loc.Name + " | " + a + " | " + b
}

func accKind(a *POAccess) string {
	k := "read"
	if a.WV != nil {
		k = "write"
	}
	if a.Atomic {
		k = "atomic-" + k
	}
	return k
}

// racePairs lists the candidate pairs: same location, different threads, at least one write,
// at least one plain access; channel locations and observer threads are left out.
func (po *PO) racePairs() []PORace {
	var out []PORace
	for _, l := range sortedLocs(po.Locs) {
		if l.IsChan {
			continue
		}
		add := func(x, y *POAccessRef) {
			if x.Ev.T == y.Ev.T || x.Ev.T.Final || y.Ev.T.Final {
				return
			}
			if x.A.Atomic && y.A.Atomic {
				return
			}
			out = append(out, PORace{A: x.Ev, B: y.Ev, AA: x.A, BA: y.A, Loc: l})
		}
		for i, w := range l.Writes {
			for _, r := range l.Reads {
				if r.Ev == w.Ev {
					continue
				}
				add(w, r)
			}
			for j := i + 1; j < len(l.Writes); j++ {
				add(w, l.Writes[j])
			}
		}
	}
	for i := range out {
		out[i].Var = smt.Var(fmt.Sprintf("race!%d", i), smt.Bool)
	}
	return out
}

type POResult struct {
	Name     string
	Res      smt.Result
	Solver   string
	Time     time.Duration
	Trace    []string
	Events   int
	Asserts  int
	Failed   []string // labels of assertion events violated in the model
	FailedEv []*POEvent
	Races    []PORace
	Sched    []*POEvent // executed events of the model in clock order
	Replay   string     // "" not replayed, "ok", or why the schedule replay failed
	ReplayLabels map[string]bool // assertion labels that failed again in the schedule replay
	KnownHit []string // known findings matched (and excluded) while answering this query
	Script   string
}

func (po *PO) allEvents() []*POEvent {
	var out []*POEvent
	for _, t := range po.Threads {
		out = append(out, t.Events...)
	}
	return out
}

// Clocks are bit-vectors (pure QF_BV bit-blasts to SAT, which is much faster here than the
// BV+LIA combination); ClockW bits bound the number of executed events.
// (measured: bit-vector clocks make the UNSAT safety query of the C05 harness time out at
// 300 s where Int clocks — difference logic — need 80 s; Int clocks are kept)
func zeroI() *smt.Term { return smt.IntC(0) }

func cLt(a, b *smt.Term) *smt.Term { return smt.ILt(a, b) }
func cLe(a, b *smt.Term) *smt.Term { return smt.ILe(a, b) }

// base constraints: control, program order, enabling, reads-from, coherence.
func (po *PO) baseConstraints() []*smt.Term {
	var as []*smt.Term
	for _, t := range po.Threads {
		for _, e := range t.Events {
			as = append(as, smt.Implies(e.X, cLt(zeroI(), e.C)))
			if e.Kind == "root" {
				if len(e.Edges) == 0 {
					if !t.Final {
						as = append(as, e.X)
					}
					continue
				}
				var alts []*smt.Term
				for _, ed := range e.Edges {
					alts = append(alts, smt.And(ed.From.X, ed.Cond, cLt(ed.From.C, e.C)))
				}
				as = append(as, smt.Implies(e.X, smt.Or(alts...)))
				continue
			}
			var alts []*smt.Term
			for _, ed := range e.Edges {
				if ed.From == nil {
					alts = append(alts, ed.Cond)
					continue
				}
				alts = append(alts, smt.And(ed.From.X, ed.Cond, cLt(ed.From.C, e.C)))
			}
			as = append(as, smt.Implies(e.X, smt.Or(alts...)))
			if e.Enable != nil {
				as = append(as, smt.Implies(e.X, e.Enable))
			}
			if e.Inv != nil {
				as = append(as, smt.Implies(e.X, e.Inv))
			}
		}
	}
	// reads-from
	for _, l := range sortedLocs(po.Locs) {
		for ri, rd := range l.Reads {
			e, a := rd.Ev, rd.A
			k := smt.Var(fmt.Sprintf("k!%s!%d", sanitize(l.Key), ri), smt.Int)
			as = append(as, smt.Implies(e.X, smt.And(cLe(zeroI(), k), cLt(k, e.C))))
			alts := []*smt.Term{smt.And(smt.Eq(k, zeroI()), smt.Eq(a.RV, l.Init))}
			for _, wr := range l.Writes {
				w, b := wr.Ev, wr.A
				if w == e {
					continue
				}
				wrote := smt.And(w.X, b.WG)
				as = append(as, smt.Implies(smt.And(e.X, wrote, cLt(w.C, e.C)), cLe(w.C, k)))
				alts = append(alts, smt.And(wrote, smt.Eq(w.C, k), smt.Eq(a.RV, b.WV)))
			}
			as = append(as, smt.Implies(e.X, smt.Or(alts...)))
		}
		// coherence: distinct clocks for accesses of different threads when one writes
		for i, wr := range l.Writes {
			for _, rd := range l.Reads {
				if rd.Ev.T != wr.Ev.T {
					as = append(as, smt.Implies(smt.And(rd.Ev.X, wr.Ev.X), smt.Not(smt.Eq(rd.Ev.C, wr.Ev.C))))
				}
			}
			for j := i + 1; j < len(l.Writes); j++ {
				w2 := l.Writes[j]
				if w2.Ev.T != wr.Ev.T {
					as = append(as, smt.Implies(smt.And(w2.Ev.X, wr.Ev.X), smt.Not(smt.Eq(w2.Ev.C, wr.Ev.C))))
				}
			}
		}
	}
	return as
}

// quiescence constraints: no thread can make a further step, the final observer runs last.
func (po *PO) quiescenceConstraints() []*smt.Term {
	var as []*smt.Term
	// final values per location
	fin := map[*POLoc]*smt.Term{}
	for _, l := range sortedLocs(po.Locs) {
		if len(l.Writes) == 0 {
			fin[l] = l.Init
			continue
		}
		f := smt.Var("fin!"+sanitize(l.Key), l.sort())
		kf := smt.Var("kf!"+sanitize(l.Key), smt.Int)
		fin[l] = f
		alts := []*smt.Term{smt.And(smt.Eq(kf, zeroI()), smt.Eq(f, l.Init))}
		for _, wr := range l.Writes {
			if wr.Ev.T.Final {
				continue
			}
			wrote := smt.And(wr.Ev.X, wr.A.WG)
			as = append(as, smt.Implies(wrote, cLe(wr.Ev.C, kf)))
			alts = append(alts, smt.And(wrote, smt.Eq(wr.Ev.C, kf), smt.Eq(f, wr.A.WV)))
		}
		as = append(as, cLe(zeroI(), kf), smt.Or(alts...))
	}
	// exhaustiveness: an executed event continues along one of its outgoing edges (branch
	// conditions are exhaustive; harness assumptions must hold in a maximal execution)
	out := map[*POEvent][]*smt.Term{}
	for _, t := range po.Threads {
		for _, e := range t.Events {
			for _, ed := range e.Edges {
				if ed.From != nil && ed.From.T == t {
					out[ed.From] = append(out[ed.From], ed.PCond)
				}
			}
		}
	}
	for _, t := range po.Threads {
		if t.Final {
			continue
		}
		for _, e := range t.Events {
			if e.Kind == "end" || e.Kind == "cut" || e.Kind == "unknown" || e.Kind == "end-panic-ok" || (e.Kind == "assert" && e.Label == "panic") {
				continue
			}
			as = append(as, smt.Implies(e.X, smt.Or(out[e]...)))
		}
	}
	var finals []*POThread
	for _, t := range po.Threads {
		if t.Final {
			finals = append(finals, t)
			continue
		}
		for _, e := range t.Events {
			if e.Cut {
				// executions that run into an unrolling bound are not maximal: they are excluded
				// here as a whole (the bound must not even be reachable from an executed parent),
				// and reported by the unwinding query
				as = append(as, smt.Not(e.X))
				for _, ed := range e.Edges {
					if ed.From != nil {
						as = append(as, smt.Not(smt.And(ed.From.X, ed.PCond)))
					}
				}
				continue
			}
			var must *smt.Term
			if e.Kind == "root" {
				if len(e.Edges) == 0 {
					continue
				}
				var alts []*smt.Term
				for _, ed := range e.Edges {
					alts = append(alts, smt.And(ed.From.X, ed.PCond))
				}
				must = smt.Or(alts...)
			} else {
				var alts []*smt.Term
				for _, ed := range e.Edges {
					if ed.From == nil {
						alts = append(alts, ed.PCond)
					} else {
						alts = append(alts, smt.And(ed.From.X, ed.PCond))
					}
				}
				must = smt.Or(alts...)
			}
			if e.Enable == nil {
				as = append(as, smt.Implies(must, e.X))
				continue
			}
			// blocked: its reads see the final values and the enabling condition is false
			var blk []*smt.Term
			for _, a := range e.Acc {
				if a.RV != nil {
					blk = append(blk, smt.Eq(a.RV, fin[a.Loc]))
				}
			}
			blk = append(blk, smt.Not(e.Enable))
			as = append(as, smt.Implies(smt.And(must, smt.Not(e.X)), smt.And(blk...)))
		}
	}
	// observers run after everything else
	for _, ft := range finals {
		as = append(as, ft.Root.X)
		for _, t := range po.Threads {
			if t.Final {
				continue
			}
			for _, e := range t.Events {
				as = append(as, smt.Implies(e.X, cLt(e.C, ft.Root.C)))
			}
		}
	}
	return as
}

// AssertGoal: some assertion event (optionally restricted by label prefix) executes with a
// false condition.
func AssertGoal(prefix string, final bool) func(po *PO) *smt.Term {
	return AssertGoalExcl(prefix, final, nil)
}

// AssertGoalExcl ignores the assertion events listed in excl (known findings already reported).
func AssertGoalExcl(prefix string, final bool, excl map[int]bool) func(po *PO) *smt.Term {
	return func(po *PO) *smt.Term {
		var alts []*smt.Term
		for _, e := range po.allEvents() {
			if e.Kind != "assert" || e.Cond == nil || excl[e.ID] {
				continue
			}
			if e.T.Final != final {
				continue
			}
			if prefix != "" && !strings.HasPrefix(e.Label, prefix) && e.Label != "panic" {
				continue
			}
			alts = append(alts, smt.And(e.X, smt.Not(e.Cond)))
		}
		return smt.Or(alts...)
	}
}

func CutGoal() func(po *PO) *smt.Term {
	return func(po *PO) *smt.Term {
		var alts []*smt.Term
		for _, e := range po.allEvents() {
			if e.Cut {
				alts = append(alts, e.X)
			}
		}
		return smt.Or(alts...)
	}
}

func ReachGoal(label string) func(po *PO) *smt.Term {
	return func(po *PO) *smt.Term {
		var alts []*smt.Term
		for _, e := range po.allEvents() {
			if e.Kind == "reach" && e.Label == label {
				alts = append(alts, e.X)
			}
		}
		return smt.Or(alts...)
	}
}

// Solve poses one query with a solver portfolio (z3 5.1 and 4.8.12 side by side).
func (po *PO) Solve(q POQuery, timeout time.Duration) POResult {
	t0 := time.Now()
	as := po.baseConstraints()
	if q.Quiescence {
		as = append(as, po.quiescenceConstraints()...)
	} else {
		// safety: observers do not run
		for _, t := range po.Threads {
			if t.Final {
				as = append(as, smt.Not(t.Root.X))
			}
		}
	}
	res := POResult{Name: q.Name}
	evs := po.allEvents()
	res.Events = len(evs)
	var goal *smt.Term
	var races []PORace
	if q.Race {
		races = po.racePairs()
		var alts []*smt.Term
		// The racing pair sits at the two ends of a gap [g,h] of the global order that no other
		// executed event falls into strictly (events with a clock equal to g or h are independent
		// of the pair's member at that clock by the coherence constraints and can be linearised
		// outside the pair). One gap for the whole query: |pairs| + |events| constraints instead
		// of |pairs| x |events|.
		g := smt.Var("race!g", smt.Int)
		h := smt.Var("race!h", smt.Int)
		as = append(as, cLt(g, h))
		for _, e := range evs {
			if e.T.Final || e.Kind == "root" {
				continue
			}
			as = append(as, smt.Implies(e.X, smt.Or(cLe(e.C, g), cLe(h, e.C))))
		}
		for _, rc := range races {
			if q.RaceExcl[rc.Key()] {
				continue
			}
			cs := []*smt.Term{rc.A.X, rc.B.X}
			if rc.AA.WV != nil && rc.AA.WG != nil {
				cs = append(cs, rc.AA.WG)
			}
			if rc.BA.WV != nil && rc.BA.WG != nil {
				cs = append(cs, rc.BA.WG)
			}
			cs = append(cs, smt.Or(smt.And(smt.Eq(rc.A.C, g), smt.Eq(rc.B.C, h)), smt.And(smt.Eq(rc.B.C, g), smt.Eq(rc.A.C, h))))
			as = append(as, smt.Implies(rc.Var, smt.And(cs...)))
			alts = append(alts, rc.Var)
		}
		res.Asserts = len(alts)
		goal = smt.Or(alts...)
	} else {
		goal = q.Goal(po)
	}
	if goal.IsFalse() {
		res.Res = smt.Unsat
		res.Solver = "trivial"
		return res
	}
	as = append(as, goal)
	violVar := map[string]*POEvent{}
	var violNames []string
	for _, e := range evs {
		if e.Kind == "assert" && e.Cond != nil {
			v := smt.Var(fmt.Sprintf("viol!%d", e.ID), smt.Bool)
			as = append(as, smt.Eq(v, smt.And(e.X, smt.Not(e.Cond))))
			violVar[v.Name] = e
			violNames = append(violNames, v.Name)
		}
	}
	decls, body := smt.Render(as)
	var sb strings.Builder
	sb.WriteString("(set-option :produce-models true)\n")
	have := map[string]bool{}
	for _, d := range decls {
		have[d] = true
		sb.WriteString(d + "\n")
	}
	// make sure every x/c is declared for get-value
	var names []string
	for _, e := range evs {
		for _, v := range []*smt.Term{e.X, e.C} {
			d := fmt.Sprintf("(declare-fun %s () %s)", v.Name, v.S)
			if !have[d] {
				have[d] = true
				sb.WriteString(d + "\n")
			}
			names = append(names, v.Name)
		}
	}
	for _, b := range body {
		sb.WriteString(b + "\n")
	}
	sb.WriteString("(check-sat)\n")
	script := sb.String()
	names = append(names, violNames...)
	for _, rc := range races {
		if !q.RaceExcl[rc.Key()] {
			names = append(names, rc.Var.Name)
		}
	}
	withModel := script + "(get-value (" + strings.Join(names, " ") + "))\n"
	type ans struct {
		kind string
		res  smt.Result
		out  string
	}
	ch := make(chan ans, 2)
	kinds := []string{"z3-new", "z3"}
	for _, k := range kinds {
		go func(k string) {
			r, out := smt.CheckText(k, withModel, timeout)
			ch <- ans{k, r, out}
		}(k)
	}
	var got ans
	for i := 0; i < len(kinds); i++ {
		a := <-ch
		if a.res != smt.Unknown {
			got = a
			break
		}
		got = a
	}
	res.Res = got.res
	res.Solver = got.kind
	res.Time = time.Since(t0)
	res.Script = script
	if got.res == smt.Sat {
		model := smt.ParseModelText(got.out)
		type ex struct {
			c int64
			e *POEvent
		}
		var exs []ex
		for _, e := range evs {
			if model[e.X.Name] == 1 {
				exs = append(exs, ex{int64(model[e.C.Name]), e})
			}
		}
		sort.Slice(exs, func(i, j int) bool { return exs[i].c < exs[j].c })
		for _, x := range exs {
			res.Sched = append(res.Sched, x.e)
		}
		for _, x := range exs {
			e := x.e
			if e.Kind == "root" {
				continue
			}
			desc := e.Kind
			for _, a := range e.Acc {
				desc += " " + a.Loc.Name
			}
			if e.Label != "" {
				desc += " [" + e.Label + "]"
			}
			res.Trace = append(res.Trace, fmt.Sprintf("%4d  %-28s %-22s %s", x.c, e.T.Name, e.Pos, desc))
		}
		for n, e := range violVar {
			if model[n] == 1 {
				res.FailedEv = append(res.FailedEv, e)
			}
		}
		for _, rc := range races {
			if model[rc.Var.Name] == 1 {
				res.Races = append(res.Races, rc)
				res.Failed = append(res.Failed, "C19/data-race "+rc.Key())
			}
		}
		sort.Slice(res.FailedEv, func(i, j int) bool { return res.FailedEv[i].ID < res.FailedEv[j].ID })
		for _, e := range res.FailedEv {
			res.Failed = append(res.Failed, e.Label+" @"+e.Pos+" "+e.Stack)
		}
	}
	return res
}


// ReachAllGoal: for every distinct verifReach label some event carrying it executes (the
// terminating witness of a PO harness).
func ReachAllGoal() func(po *PO) *smt.Term {
	return func(po *PO) *smt.Term {
		by := map[string][]*smt.Term{}
		for _, e := range po.allEvents() {
			if e.Kind == "reach" && !e.T.Final {
				by[e.Label] = append(by[e.Label], e.X)
			}
		}
		if len(by) == 0 {
			return smt.True
		}
		var cs []*smt.Term
		var ks []string
		for k := range by {
			ks = append(ks, k)
		}
		sort.Strings(ks)
		for _, k := range ks {
			cs = append(cs, smt.Or(by[k]...))
		}
		return smt.And(cs...)
	}
}
