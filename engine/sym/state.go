package sym

import (
	"fmt"
	"go/token"
	"go/types"
	"sort"
	"strings"
	"sync"
	"sync/atomic"

	"golang.org/x/tools/go/ssa"

	"verif/engine/smt"
)

// Engine holds what is shared by every path: the program, stub table, register numbering.
type Engine struct {
	Prog  *ssa.Program
	Pkgs  map[string]*ssa.Package
	Stubs map[string]*ssa.Function // full callee name -> replacement function

	live    map[*ssa.Function]*liveInfo
	mu      sync.Mutex
	regIdx  map[*ssa.Function]map[ssa.Value]int
	nregs   map[*ssa.Function]int
	entered map[string]bool

	LoopBound  int
	InitTarget string
	MaxSteps   int
	MaxDepth   int
	DenyPkgs   map[string]bool
	AllowFns   map[string]bool // functions of denied packages that are simple enough to interpret
	Debug      bool
	Unsupp     map[string]int // unsupported constructs met (evidence)
	fresh      int64
}

func NewEngine(prog *ssa.Program) *Engine {
	return &Engine{
		Prog: prog, Pkgs: map[string]*ssa.Package{}, Stubs: map[string]*ssa.Function{},
		regIdx: map[*ssa.Function]map[ssa.Value]int{}, nregs: map[*ssa.Function]int{},
		live: map[*ssa.Function]*liveInfo{},
		entered: map[string]bool{}, LoopBound: 12, MaxSteps: 400000, MaxDepth: 64,
		DenyPkgs: map[string]bool{
			"fmt": true, "log": true, "os": true, "reflect": true, "runtime": true, "time": true,
			"net": true, "syscall": true, "strings": true, "strconv": true, "internal/reflectlite": true,
			"sync": true, "context": true, "io": false, "unsafe": true, "math/rand": true,
			"github.com/bytedance/gopkg/lang/mcache":   true,
			"github.com/bytedance/gopkg/lang/dirtmake": true,
			"github.com/bytedance/gopkg/lang/fastrand": true,
			"github.com/bytedance/gopkg/util/gopool":   true,
			"golang.org/x/sys/unix":                    true,
		},
		Unsupp: map[string]int{},
		AllowFns: map[string]bool{
			"(*syscall.Iovec).SetLen": true, "(*net.OpError).Timeout": true, "(*os.SyscallError).Timeout": true, "(*syscall.Msghdr).SetControllen": true, "(*syscall.Msghdr).SetIovlen": true,
		},
	}
}

func (e *Engine) Fresh(prefix string) string {
	n := atomic.AddInt64(&e.fresh, 1)
	return fmt.Sprintf("%s!%d", prefix, n)
}

func (e *Engine) noteUnsupp(s string) {
	e.mu.Lock()
	e.Unsupp[s]++
	e.mu.Unlock()
}

func (e *Engine) noteEntered(fn *ssa.Function) {
	e.mu.Lock()
	e.entered[fn.String()] = true
	e.mu.Unlock()
}

func (e *Engine) Entered() []string {
	e.mu.Lock()
	defer e.mu.Unlock()
	var out []string
	for k := range e.entered {
		out = append(out, k)
	}
	sort.Strings(out)
	return out
}

func (e *Engine) regs(fn *ssa.Function) (map[ssa.Value]int, int) {
	e.mu.Lock()
	defer e.mu.Unlock()
	if m, ok := e.regIdx[fn]; ok {
		return m, e.nregs[fn]
	}
	m := map[ssa.Value]int{}
	n := 0
	for _, p := range fn.Params {
		m[p] = n
		n++
	}
	for _, p := range fn.FreeVars {
		m[p] = n
		n++
	}
	for _, b := range fn.Blocks {
		for _, in := range b.Instrs {
			if v, ok := in.(ssa.Value); ok {
				m[v] = n
				n++
			}
		}
	}
	e.regIdx[fn] = m
	e.nregs[fn] = n
	return m, n
}

type deferRec struct {
	fn   Value // Func
	args []Value
	// invoke-mode defers
	recv   Value
	method *types.Func
}

type Frame struct {
	Fn        *ssa.Function
	Block     *ssa.BasicBlock
	Prev      *ssa.BasicBlock
	PC        int
	Regs      []Value
	idx       map[ssa.Value]int
	Defers    []deferRec
	Unwinding bool
	Loop      map[int]int // block index -> visits
	// where to put the result in the caller: the call instruction (ssa.Value) or nil
	RetTo      ssa.Value
	IsDeferred bool // this frame is a deferred call executed by RunDefers/unwind of its parent
	IsGoRoot   bool
	Results    []Value
	OnReturn   func(vals []Value) []Value
}

func (f *Frame) clone() *Frame {
	n := *f
	n.Regs = make([]Value, len(f.Regs))
	copy(n.Regs, f.Regs)
	if len(f.Defers) > 0 {
		n.Defers = make([]deferRec, len(f.Defers))
		copy(n.Defers, f.Defers)
	}
	if f.Loop != nil {
		n.Loop = make(map[int]int, len(f.Loop))
		for k, v := range f.Loop {
			n.Loop[k] = v
		}
	}
	return &n
}

type Nondet struct {
	Name string
	T    *smt.Term
	Stub bool
}

type LogEv struct {
	Tag  string
	Vals []*smt.Term
	Pos  string
}

type PanicInfo struct {
	Val Value
	Msg string
	Pos string
}

type pendingGo struct {
	Fn   Func
	Args []Value
}

// State is one symbolic path (one thread in isolation).
type State struct {
	Eng     *Engine
	Frames  []*Frame
	Heap    *Heap
	NextID  *int // shared across forks so ids are globally unique
	PC      []*smt.Term
	Globals map[*ssa.Global]int
	Nondets []Nondet
	Log     []LogEv
	Pending []pendingGo
	Panic   *PanicInfo
	Steps   int
	Thread  int
	Trace   []string
	Ghost   map[string]Value // engine-level ghost registers (persistent copy on fork)
	Hook    MemHook
	PanicOK bool // harness said a panic is acceptable from here on
	Cover   map[string]bool // labels of verifReach points hit on this path
	Known   map[int64]bool  // atoms (term ids) whose truth the path condition fixes
	// partial-order mode
	Dirty   map[int]bool   // prologue objects with thread-local (non-shared) writes
	Spawned map[string]int // closure key -> spawns so far on this path
	POLast  *POEvent
	Resume  *poResume
	POThreads []POThreadSpec
	SiteVisits map[uint64]int
	Rp         *rpState // schedule replay of a partial-order counterexample
	// results for the harness
	Result []Value
}

// MemHook lets PO mode intercept shared-memory operations.
type MemHook interface {
	// Load returns (value, true) if the location is shared and handled.
	Load(st *State, p Ptr, t types.Type, atomicOp bool, pos token.Pos) (Value, bool, error)
	Store(st *State, p Ptr, v Value, atomicOp bool, pos token.Pos) (bool, error)
}

func (st *State) Fork() *State {
	n := *st
	n.Frames = make([]*Frame, len(st.Frames))
	for i, f := range st.Frames {
		n.Frames[i] = f.clone()
	}
	n.Heap = st.Heap.Clone()
	n.PC = append([]*smt.Term(nil), st.PC...)
	n.Globals = make(map[*ssa.Global]int, len(st.Globals))
	for k, v := range st.Globals {
		n.Globals[k] = v
	}
	n.Nondets = append([]Nondet(nil), st.Nondets...)
	n.Log = append([]LogEv(nil), st.Log...)
	n.Pending = append([]pendingGo(nil), st.Pending...)
	n.Trace = append([]string(nil), st.Trace...)
	n.Ghost = make(map[string]Value, len(st.Ghost))
	for k, v := range st.Ghost {
		n.Ghost[k] = v
	}
	n.Cover = make(map[string]bool, len(st.Cover))
	for k, v := range st.Cover {
		n.Cover[k] = v
	}
	if st.Panic != nil {
		p := *st.Panic
		n.Panic = &p
	}
	n.POThreads = append([]POThreadSpec(nil), st.POThreads...)
	if st.Rp != nil {
		n.Rp = st.Rp.clone()
	}
	if st.SiteVisits != nil {
		n.SiteVisits = make(map[uint64]int, len(st.SiteVisits))
		for k, v := range st.SiteVisits {
			n.SiteVisits[k] = v
		}
	}
	if st.Dirty != nil {
		n.Dirty = make(map[int]bool, len(st.Dirty))
		for k, v := range st.Dirty {
			n.Dirty[k] = v
		}
	}
	if st.Spawned != nil {
		n.Spawned = make(map[string]int, len(st.Spawned))
		for k, v := range st.Spawned {
			n.Spawned[k] = v
		}
	}
	n.Known = make(map[int64]bool, len(st.Known)+8)
	for k, v := range st.Known {
		n.Known[k] = v
	}
	return &n
}

func (st *State) top() *Frame { return st.Frames[len(st.Frames)-1] }

func (st *State) newID() int {
	*st.NextID++
	return *st.NextID
}

func (st *State) NewObj(t types.Type, v Value, site string) *Object {
	o := &Object{ID: st.newID(), Kind: OVal, T: t, V: v, Site: site, Thread: st.Thread}
	st.Heap.Put(o)
	return o
}

func (st *State) NewBlock(capT *smt.Term, content *ByteFn, tag string) *Object {
	o := &Object{ID: st.newID(), Kind: OBytes, Cap: capT, Content: content, Tag: tag, Thread: st.Thread}
	st.Heap.Put(o)
	return o
}

func (st *State) Assume(c *smt.Term) {
	if c.IsTrue() {
		return
	}
	st.PC = append(st.PC, c)
	st.learn(c, true)
}

func (st *State) learn(c *smt.Term, val bool) {
	if st.Known == nil {
		st.Known = map[int64]bool{}
	}
	st.Known[c.ID] = val
	switch {
	case c.Op == "not":
		st.learn(c.Args[0], !val)
	case c.Op == "and" && val:
		for _, a := range c.Args {
			st.learn(a, true)
		}
	case c.Op == "or" && !val:
		for _, a := range c.Args {
			st.learn(a, false)
		}
	}
}

// KnownVal reports whether the path condition syntactically fixes c.
func (st *State) KnownVal(c *smt.Term) (bool, bool) {
	if v, ok := st.Known[c.ID]; ok {
		return v, true
	}
	if c.Op == "not" {
		if v, ok := st.Known[c.Args[0].ID]; ok {
			return !v, true
		}
	}
	return false, false
}

func (st *State) pos(p token.Pos) string {
	if !p.IsValid() {
		return ""
	}
	ps := st.Eng.Prog.Fset.Position(p)
	f := ps.Filename
	if i := strings.LastIndex(f, "/"); i >= 0 {
		f = f[i+1:]
	}
	return fmt.Sprintf("%s:%d", f, ps.Line)
}

func (st *State) curPos() string {
	for i := len(st.Frames) - 1; i >= 0; i-- {
		f := st.Frames[i]
		if f.Block != nil && f.PC < len(f.Block.Instrs) {
			p := f.Block.Instrs[f.PC].Pos()
			if p.IsValid() {
				return st.pos(p)
			}
		}
	}
	return ""
}

func (st *State) stack() string {
	var s []string
	for i := len(st.Frames) - 1; i >= 0 && len(s) < 8; i-- {
		f := st.Frames[i]
		p := ""
		if f.Block != nil && f.PC < len(f.Block.Instrs) {
			p = st.pos(f.Block.Instrs[f.PC].Pos())
		}
		s = append(s, f.Fn.Name()+"@"+p)
	}
	return strings.Join(s, " < ")
}


// History renders the monitor log (verifLog events with concrete values) as "tag=v tag=v ...".
func (st *State) History() string {
	var sb strings.Builder
	for _, l := range st.Log {
		sb.WriteString(l.Tag)
		for _, v := range l.Vals {
			if v.IsConst() {
				fmt.Fprintf(&sb, "=%d", v.SVal())
			} else {
				sb.WriteString("=?")
			}
		}
		sb.WriteByte(' ')
	}
	return strings.TrimSpace(sb.String())
}


type POThreadSpec struct {
	Name  string
	Fn    Func
	Final bool
}
