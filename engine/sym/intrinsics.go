package sym

import (
	"os"
	"fmt"
	"go/token"
	"go/types"
	"strings"

	"golang.org/x/tools/go/ssa"

	"verif/engine/smt"
)

type intrinsic func(r *Run, st *State, fn *ssa.Function, args []Value, pos token.Pos) ([]Value, error)

var intrinsics map[string]intrinsic

func strLit(v Value) string {
	if s, ok := v.(Str); ok && s.Lit != nil {
		return *s.Lit
	}
	return "?"
}

func termArg(v Value) (*smt.Term, error) {
	t, ok := v.(*smt.Term)
	if !ok {
		return nil, unknownf("expected scalar got %s", vstr(v))
	}
	return t, nil
}

func (r *Run) nondet(st *State, name string, w int, stub bool) *smt.Term {
	if r.ReplayVals != nil {
		// concrete re-execution: the k-th draw gets the k-th recorded value
		k := len(st.Nondets)
		var val uint64
		if k < len(r.ReplayVals) {
			val = r.ReplayVals[k]
		}
		var t *smt.Term
		if w == 0 {
			t = smt.BoolC(val&1 == 1)
		} else {
			t = smt.BV(val, w)
		}
		st.Nondets = append(st.Nondets, Nondet{Name: name, T: t, Stub: stub})
		return t
	}
	v := smt.Var(r.Eng.Fresh("nd_"+sanitize(name)), smt.Sort(w))
	st.Nondets = append(st.Nondets, Nondet{Name: name, T: v, Stub: stub})
	return v
}

func sanitize(s string) string {
	var b strings.Builder
	for _, c := range s {
		if (c >= 'a' && c <= 'z') || (c >= 'A' && c <= 'Z') || (c >= '0' && c <= '9') || c == '_' {
			b.WriteRune(c)
		} else {
			b.WriteByte('_')
		}
	}
	return b.String()
}

// AtomicHook is implemented by PO-mode hooks to turn sync/atomic operations into events.
type AtomicHook interface {
	AtomicLoad(st *State, p Ptr, w int, pos token.Pos) (Value, bool, error)
	AtomicStore(st *State, p Ptr, v Value, pos token.Pos) (bool, error)
	// RMW: f maps old value to (new value, write guard, result)
	AtomicRMW(st *State, p Ptr, w int, f func(old *smt.Term) (nv *smt.Term, wr *smt.Term), pos token.Pos) (*smt.Term, bool, error)
}

func (r *Run) atomicLoad(st *State, p Ptr, w int, pos token.Pos) (Value, error) {
	if p.ID == 0 {
		return nil, r.startPanic(st, "nil pointer dereference (atomic load)", pos)
	}
	if h, ok := st.Hook.(AtomicHook); ok && st.Hook != nil {
		if v, done, err := h.AtomicLoad(st, p, w, pos); done || err != nil {
			return v, err
		}
	}
	return r.rawLoad(st, p, nil)
}

func (r *Run) atomicStore(st *State, p Ptr, v Value, pos token.Pos) error {
	if p.ID == 0 {
		return r.startPanic(st, "nil pointer dereference (atomic store)", pos)
	}
	if h, ok := st.Hook.(AtomicHook); ok && st.Hook != nil {
		if done, err := h.AtomicStore(st, p, v, pos); done || err != nil {
			return err
		}
	}
	return r.rawStore(st, p, v)
}

// atomicRMW returns the old value.
func (r *Run) atomicRMW(st *State, p Ptr, w int, f func(old *smt.Term) (*smt.Term, *smt.Term), pos token.Pos) (*smt.Term, error) {
	if p.ID == 0 {
		return nil, r.startPanic(st, "nil pointer dereference (atomic rmw)", pos)
	}
	if h, ok := st.Hook.(AtomicHook); ok && st.Hook != nil {
		if v, done, err := h.AtomicRMW(st, p, w, f, pos); done || err != nil {
			return v, err
		}
	}
	ov, err := r.rawLoad(st, p, nil)
	if err != nil {
		return nil, err
	}
	old, ok := ov.(*smt.Term)
	if !ok {
		return nil, unknownf("atomic rmw on %s", vstr(ov))
	}
	nv, wr := f(old)
	if err := r.rawStore(st, p, smt.Ite(wr, nv, old)); err != nil {
		return nil, err
	}
	return old, nil
}

func init() {
	intrinsics = map[string]intrinsic{}
	for _, sfx := range []struct {
		n string
		w int
	}{{"Int32", 32}, {"Uint32", 32}, {"Int64", 64}, {"Uint64", 64}, {"Uintptr", 64}} {
		w := sfx.w
		intrinsics["sync/atomic.Load"+sfx.n] = func(r *Run, st *State, fn *ssa.Function, a []Value, pos token.Pos) ([]Value, error) {
			p, ok := a[0].(Ptr)
			if !ok {
				return nil, unknownf("atomic load on %T", a[0])
			}
			v, err := r.atomicLoad(st, p, w, pos)
			return []Value{v}, err
		}
		intrinsics["sync/atomic.Store"+sfx.n] = func(r *Run, st *State, fn *ssa.Function, a []Value, pos token.Pos) ([]Value, error) {
			p, ok := a[0].(Ptr)
			if !ok {
				return nil, unknownf("atomic store on %T", a[0])
			}
			return nil, r.atomicStore(st, p, a[1], pos)
		}
		intrinsics["sync/atomic.Add"+sfx.n] = func(r *Run, st *State, fn *ssa.Function, a []Value, pos token.Pos) ([]Value, error) {
			p, ok := a[0].(Ptr)
			d, ok2 := a[1].(*smt.Term)
			if !ok || !ok2 {
				return nil, unknownf("atomic add on %T", a[0])
			}
			old, err := r.atomicRMW(st, p, w, func(o *smt.Term) (*smt.Term, *smt.Term) { return smt.Add(o, d), smt.True }, pos)
			if err != nil {
				return nil, err
			}
			return []Value{smt.Add(old, d)}, nil
		}
		intrinsics["sync/atomic.Swap"+sfx.n] = func(r *Run, st *State, fn *ssa.Function, a []Value, pos token.Pos) ([]Value, error) {
			p, ok := a[0].(Ptr)
			d, ok2 := a[1].(*smt.Term)
			if !ok || !ok2 {
				return nil, unknownf("atomic swap on %T", a[0])
			}
			old, err := r.atomicRMW(st, p, w, func(o *smt.Term) (*smt.Term, *smt.Term) { return d, smt.True }, pos)
			if err != nil {
				return nil, err
			}
			return []Value{old}, nil
		}
		intrinsics["sync/atomic.CompareAndSwap"+sfx.n] = func(r *Run, st *State, fn *ssa.Function, a []Value, pos token.Pos) ([]Value, error) {
			p, ok := a[0].(Ptr)
			ov, ok2 := a[1].(*smt.Term)
			nv, ok3 := a[2].(*smt.Term)
			if !ok || !ok2 || !ok3 {
				return nil, unknownf("atomic cas on %T", a[0])
			}
			old, err := r.atomicRMW(st, p, w, func(o *smt.Term) (*smt.Term, *smt.Term) { return nv, smt.Eq(o, ov) }, pos)
			if err != nil {
				return nil, err
			}
			return []Value{smt.Eq(old, ov)}, nil
		}
	}
	// atomic.Value: struct{v any}; field 0 holds the interface value
	intrinsics["(*sync/atomic.Value).Load"] = func(r *Run, st *State, fn *ssa.Function, a []Value, pos token.Pos) ([]Value, error) {
		p, ok := a[0].(Ptr)
		if !ok {
			return nil, unknownf("atomic.Value.Load on %T", a[0])
		}
		if p.ID == 0 {
			return nil, r.startPanic(st, "nil pointer dereference (atomic.Value)", pos)
		}
		fp := p.sub(0)
		if h, ok := st.Hook.(ValueHook); ok && st.Hook != nil {
			if v, done, err := h.ValueLoad(st, fp, pos); done || err != nil {
				return []Value{v}, err
			}
		}
		v, err := r.rawLoad(st, fp, nil)
		return []Value{v}, err
	}
	intrinsics["(*sync/atomic.Value).Store"] = func(r *Run, st *State, fn *ssa.Function, a []Value, pos token.Pos) ([]Value, error) {
		p, ok := a[0].(Ptr)
		if !ok {
			return nil, unknownf("atomic.Value.Store on %T", a[0])
		}
		if p.ID == 0 {
			return nil, r.startPanic(st, "nil pointer dereference (atomic.Value)", pos)
		}
		if ifc, ok := a[1].(Iface); ok && ifc.T == nil {
			return nil, r.startPanic(st, "sync/atomic: store of nil value into Value", pos)
		}
		fp := p.sub(0)
		if h, ok := st.Hook.(ValueHook); ok && st.Hook != nil {
			if done, err := h.ValueStore(st, fp, a[1], pos); done || err != nil {
				return nil, err
			}
		}
		return nil, r.rawStore(st, fp, a[1])
	}
	// sync.Mutex: field 0 (state) is the lock word; Lock blocks while it is non-zero
	intrinsics["(*sync.Mutex).Lock"] = func(r *Run, st *State, fn *ssa.Function, a []Value, pos token.Pos) ([]Value, error) {
		p, ok := a[0].(Ptr)
		if !ok || p.ID == 0 {
			return nil, r.startPanic(st, "nil pointer dereference (Mutex.Lock)", pos)
		}
		w := p.sub(0)
		free := func(o *smt.Term) *smt.Term { return smt.Eq(o, smt.BV(0, 32)) }
		set := func(o *smt.Term) (*smt.Term, *smt.Term) { return smt.BV(1, 32), smt.True }
		if po, ok := st.Hook.(*PO); ok && st.Hook != nil {
			if handled, err := po.AwaitRMW(st, w, free, set, pos); handled || err != nil {
				return nil, err
			}
		}
		ov, err := r.rawLoad(st, w, nil)
		if err != nil {
			return nil, err
		}
		if t, ok := ov.(*smt.Term); ok && t.IsConst() && t.C != 0 {
			return nil, pathEnd{EndBlocked, "Mutex.Lock on a locked mutex at " + st.pos(pos)}
		}
		return nil, r.rawStore(st, w, smt.BV(1, 32))
	}
	intrinsics["(*sync.Mutex).Unlock"] = func(r *Run, st *State, fn *ssa.Function, a []Value, pos token.Pos) ([]Value, error) {
		p, ok := a[0].(Ptr)
		if !ok || p.ID == 0 {
			return nil, r.startPanic(st, "nil pointer dereference (Mutex.Unlock)", pos)
		}
		return nil, r.atomicStore(st, p.sub(0), smt.BV(0, 32), pos)
	}
	noop := func(r *Run, st *State, fn *ssa.Function, a []Value, pos token.Pos) ([]Value, error) {
		return nil, nil
	}
	// syscall.Errno.Is only matches the os error classes (ErrPermission, ErrExist, ErrNotExist,
	// ErrUnsupported); netpoll never asks for those, so it is false here
	intrinsics["(syscall.Errno).Is"] = func(r *Run, st *State, fn *ssa.Function, a []Value, pos token.Pos) ([]Value, error) {
		return []Value{smt.False}, nil
	}
	intrinsics["(syscall.Errno).Timeout"] = func(r *Run, st *State, fn *ssa.Function, a []Value, pos token.Pos) ([]Value, error) {
		t, ok := a[0].(*smt.Term)
		if !ok {
			return []Value{smt.False}, nil
		}
		// EAGAIN (11), EWOULDBLOCK (11), ETIMEDOUT (110)
		return []Value{smt.Or(smt.Eq(t, smt.BV(11, int(t.S))), smt.Eq(t, smt.BV(110, int(t.S))))}, nil
	}
	intrinsics["runtime.Gosched"] = noop
	intrinsics["runtime.SetFinalizer"] = noop
	intrinsics["runtime.KeepAlive"] = noop
	intrinsics["runtime.GOMAXPROCS"] = func(r *Run, st *State, fn *ssa.Function, a []Value, pos token.Pos) ([]Value, error) {
		return []Value{smt.BV(4, 64)}, nil
	}
	newErr := func(r *Run, st *State, fn *ssa.Function, a []Value, pos token.Pos) ([]Value, error) {
		return []Value{r.freshError(st, "err@"+st.pos(pos))}, nil
	}
	intrinsics["errors.New"] = newErr
	intrinsics["fmt.Errorf"] = newErr
	intrinsics["os.NewSyscallError"] = func(r *Run, st *State, fn *ssa.Function, a []Value, pos token.Pos) ([]Value, error) {
		// nil in, nil out
		if ifc, ok := a[1].(Iface); ok && ifc.T == nil {
			return []Value{Iface{}}, nil
		}
		return []Value{r.freshError(st, "syscallerr@"+st.pos(pos))}, nil
	}
	intrinsics["github.com/cloudwego/netpoll.unsafeSliceToString"] = func(r *Run, st *State, fn *ssa.Function, a []Value, pos token.Pos) ([]Value, error) {
		s, ok := a[0].(Slice)
		if !ok {
			return nil, unknownf("unsafeSliceToString on %T", a[0])
		}
		return []Value{Str{ID: s.ID, Off: s.Off, Len: s.Len}}, nil
	}
	intrinsics["github.com/cloudwego/netpoll.unsafeStringToSlice"] = func(r *Run, st *State, fn *ssa.Function, a []Value, pos token.Pos) ([]Value, error) {
		s, ok := a[0].(Str)
		if !ok {
			return nil, unknownf("unsafeStringToSlice on %T", a[0])
		}
		id, off := r.strBlock(st, s)
		return []Value{Slice{ID: id, Off: off, Len: s.Len, Cap: s.Len}}, nil
	}
}

// ValueHook: PO-mode handling of atomic.Value.
type ValueHook interface {
	ValueLoad(st *State, p Ptr, pos token.Pos) (Value, bool, error)
	ValueStore(st *State, p Ptr, v Value, pos token.Pos) (bool, error)
}

func (r *Run) freshError(st *State, site string) Value {
	var t types.Type
	if p := r.Eng.Prog.ImportedPackage("errors"); p != nil {
		if m := p.Type("errorString"); m != nil {
			t = types.NewPointer(m.Type())
		}
	}
	if t == nil {
		t = types.Universe.Lookup("error").Type()
	}
	s := site
	o := st.NewObj(nil, Struct{F: []Value{Str{Off: zero64, Len: smt.BV(uint64(len(s)), 64), Lit: &s}}}, site)
	return Iface{T: t, V: Ptr{ID: o.ID}}
}

// verifIntrinsic handles the harness vocabulary (functions whose name starts with "verif").
func (r *Run) verifIntrinsic(st *State, fn *ssa.Function, a []Value, pos token.Pos) ([]Value, bool, error) {
	name := fn.Name()
	switch name {
	case "verifNondetInt", "verifNondetInt64":
		return []Value{r.nondet(st, strLit(a[0]), 64, false)}, true, nil
	case "verifNondetInt32", "verifNondetUint32":
		return []Value{r.nondet(st, strLit(a[0]), 32, false)}, true, nil
	case "verifNondetByte":
		return []Value{r.nondet(st, strLit(a[0]), 8, false)}, true, nil
	case "verifNondetBool":
		return []Value{r.nondet(st, strLit(a[0]), 0, false)}, true, nil
	case "verifStubInt":
		return []Value{r.nondet(st, strLit(a[0]), 64, true)}, true, nil
	case "verifStubBool":
		return []Value{r.nondet(st, strLit(a[0]), 0, true)}, true, nil
	case "verifNondetBytes", "verifNewBlock":
		// (name/tag string, n int) []byte : fresh block with arbitrary content, len=cap=n
		n, err := termArg(a[1])
		if err != nil {
			return nil, true, err
		}
		tag := "caller:" + strLit(a[0])
		if name == "verifNewBlock" {
			tag = strLit(a[0])
		}
		b := st.NewBlock(n, &ByteFn{kind: bkBase, name: r.Eng.Fresh("blk")}, tag)
		return []Value{Slice{ID: b.ID, Off: zero64, Len: n, Cap: n}}, true, nil
	case "verifAssume":
		c, err := termArg(a[0])
		if err != nil {
			return nil, true, err
		}
		if c.IsFalse() {
			return nil, true, pathEnd{EndInfeasible, "assume false"}
		}
		st.Assume(c)
		if !c.IsTrue() && r.sat(st) == smt.Unsat {
			return nil, true, pathEnd{EndInfeasible, "assume"}
		}
		return nil, true, nil
	case "verifAssert":
		c, err := termArg(a[0])
		if err != nil {
			return nil, true, unknownf("assert on non-scalar (%s): %v", strLit(a[1]), err)
		}
		if po, ok := st.Hook.(*PO); ok && st.Hook != nil {
			lbl := r.relabel(strLit(a[1]))
			if r.Prop != "" && len(lbl) > 4 && lbl[0] == 'C' && lbl[3] == '/' && lbl[:3] != r.Prop {
				return nil, true, nil
			}
			ev := po.evFor(st)
			ev.Kind = "assert"
			ev.Label = lbl
			ev.Cond = c
			return nil, true, nil
		}
		r.assert(st, c, strLit(a[1]), pos)
		return nil, true, nil
	case "verifThread", "verifFinal":
		// (name string, f func()) : register a model thread; it starts when the harness returns
		fv, ok := a[1].(Func)
		if !ok || fv.Fn == nil {
			return nil, true, unknownf("verifThread needs a function")
		}
		st.POThreads = append(st.POThreads, POThreadSpec{Name: strLit(a[0]), Fn: fv, Final: name == "verifFinal"})
		return nil, true, nil
	case "verifSpawn":
		fv, ok := a[0].(Func)
		if !ok || fv.Fn == nil {
			return nil, true, unknownf("verifSpawn needs a function")
		}
		if po, ok := st.Hook.(*PO); ok && st.Hook != nil {
			return nil, true, po.spawn(st, fv, nil, pos)
		}
		if rp, ok := st.Hook.(*POReplay); ok && st.Hook != nil {
			return nil, true, rp.spawn(r, st, fv, nil)
		}
		st.Pending = append(st.Pending, pendingGo{Fn: fv})
		return nil, true, nil
	case "verifReach":
		if po, ok := st.Hook.(*PO); ok && st.Hook != nil {
			ev := po.evFor(st)
			ev.Kind = "reach"
			ev.Label = strLit(a[0])
			return nil, true, nil
		}
		lbl := strLit(a[0])
		if !r.ReachHit[lbl] {
			res, m := r.model(st)
			if res == smt.Sat {
				r.ReachHit[lbl] = true
				r.ReachModels[lbl] = m
				r.ReachNondets[lbl] = append([]Nondet(nil), st.Nondets...)
			}
		}
		st.Cover[lbl] = true
		return nil, true, nil
	case "verifLog":
		if po, ok := st.Hook.(*PO); ok && st.Hook != nil {
			pe := po.evFor(st)
			pe.Kind = "log"
			pe.Label = strLit(a[0])
			return nil, true, nil
		}
		ev := LogEv{Tag: strLit(a[0]), Pos: st.pos(pos)}
		if g, ok := a[1].(GSlice); ok {
			for i := 0; i < g.Len; i++ {
				v, _ := r.rawLoad(st, Ptr{ID: g.ID, Path: append(append([]int(nil), g.Path...), g.Off+i)}, nil)
				if t, ok := v.(*smt.Term); ok {
					ev.Vals = append(ev.Vals, t)
				}
			}
		}
		st.Log = append(st.Log, ev)
		return nil, true, nil
	case "verifBlockID":
		s, ok := a[0].(Slice)
		if !ok {
			return nil, true, unknownf("verifBlockID on %T", a[0])
		}
		return []Value{smt.BV(uint64(s.ID), 64)}, true, nil
	case "verifBlockOff":
		s, ok := a[0].(Slice)
		if !ok {
			return nil, true, unknownf("verifBlockOff on %T", a[0])
		}
		return []Value{s.Off}, true, nil
	case "verifBlockCap":
		s, ok := a[0].(Slice)
		if !ok {
			return nil, true, unknownf("verifBlockCap on %T", a[0])
		}
		if s.ID == 0 {
			return []Value{zero64}, true, nil
		}
		return []Value{st.Heap.Get(s.ID).Cap}, true, nil
	case "verifBlockIs":
		// (p []byte, tagPrefix string) bool
		s, ok := a[0].(Slice)
		if !ok {
			return nil, true, unknownf("verifBlockIs on %T", a[0])
		}
		if s.ID == 0 {
			return []Value{smt.False}, true, nil
		}
		return []Value{smt.BoolC(strings.HasPrefix(st.Heap.Get(s.ID).Tag, strLit(a[1])))}, true, nil
	case "verifStrBytes":
		s, ok := a[0].(Str)
		if !ok {
			return nil, true, unknownf("verifStrBytes on %T", a[0])
		}
		id, off := r.strBlock(st, s)
		return []Value{Slice{ID: id, Off: off, Len: s.Len, Cap: s.Len}}, true, nil
	case "verifBytesStr":
		s, ok := a[0].(Slice)
		if !ok {
			return nil, true, unknownf("verifBytesStr on %T", a[0])
		}
		return []Value{Str{ID: s.ID, Off: s.Off, Len: s.Len}}, true, nil
	case "verifGhostSet":
		// (key string, id int, v int)
		id, err := termArg(a[1])
		if err != nil || !id.IsConst() {
			return nil, true, unknownf("ghost id must be concrete")
		}
		st.Ghost[fmt.Sprintf("g:%s:%d", strLit(a[0]), id.C)] = a[2]
		return nil, true, nil
	case "verifGhostGet":
		id, err := termArg(a[1])
		if err != nil || !id.IsConst() {
			return nil, true, unknownf("ghost id must be concrete")
		}
		if v, ok := st.Ghost[fmt.Sprintf("g:%s:%d", strLit(a[0]), id.C)]; ok {
			return []Value{v}, true, nil
		}
		return []Value{zero64}, true, nil
	case "verifWroteCaller":
		// (p []byte) bool : has repo code written into this caller-owned block?
		s, ok := a[0].(Slice)
		if !ok {
			return nil, true, unknownf("verifWroteCaller on %T", a[0])
		}
		if v, ok := st.Ghost[fmt.Sprintf("wrote:%d", s.ID)]; ok {
			return []Value{v}, true, nil
		}
		return []Value{smt.False}, true, nil
	case "verifSnapshot":
		s, ok := a[0].(Slice)
		if !ok {
			if ss, isS := a[0].(Str); isS {
				id, off := r.strBlock(st, ss)
				s = Slice{ID: id, Off: off, Len: ss.Len, Cap: ss.Len}
			} else {
				return nil, true, unknownf("verifSnapshot on %T", a[0])
			}
		}
		n := 0
		if v, ok := st.Ghost["snapn"]; ok {
			n = int(v.(*smt.Term).C)
		}
		n++
		st.Ghost["snapn"] = smt.BV(uint64(n), 64)
		var c *ByteFn = &ByteFn{kind: bkZero}
		if s.ID != 0 {
			c = st.Heap.Get(s.ID).Content
		}
		st.Ghost[fmt.Sprintf("snap:%d", n)] = snapshot{s: s, c: c}
		return []Value{smt.BV(uint64(n), 64)}, true, nil
	case "verifUnchanged":
		// (h int) bool — for use in positive assertion position only (Skolem index)
		h, err := termArg(a[0])
		if err != nil || !h.IsConst() {
			return nil, true, unknownf("snapshot handle must be concrete")
		}
		sn, ok := st.Ghost[fmt.Sprintf("snap:%d", h.C)].(snapshot)
		if !ok {
			return nil, true, unknownf("unknown snapshot")
		}
		if sn.s.ID == 0 {
			return []Value{smt.True}, true, nil
		}
		cur := st.Heap.Get(sn.s.ID).Content
		if cur == sn.c {
			return []Value{smt.True}, true, nil
		}
		return []Value{r.eqRange(st, sn.c, sn.s.Off, cur, sn.s.Off, sn.s.Len, 0)}, true, nil
	case "verifBytesEq":
		// (a, b []byte) bool — positive assertion position only
		_, ao, al, ac, ok1 := r.bytesOf(st, a[0])
		_, bo, bl, bc, ok2 := r.bytesOf(st, a[1])
		if !ok1 || !ok2 {
			return nil, true, unknownf("verifBytesEq on %T,%T", a[0], a[1])
		}
		if !r.decide(st, smt.Eq(al, bl)) {
			return []Value{smt.False}, true, nil
		}
		return []Value{r.eqRange(st, ac, ao, bc, bo, al, 0)}, true, nil
	case "verifRunPending":
		if len(st.Pending) == 0 {
			return []Value{smt.False}, true, nil
		}
		p := st.Pending[0]
		st.Pending = append([]pendingGo(nil), st.Pending[1:]...)
		// run as a call whose result is discarded; then report true
		f := st.top()
		// emulate: set result true first, then push the callee so that it returns past this call
		if cv, ok := f.Block.Instrs[f.PC].(ssa.Value); ok {
			r.set(st, cv, smt.True)
		}
		if err := r.callValue(st, p.Fn, p.Args, nil, false, pos); err != nil {
			return nil, true, err
		}
		return nil, true, errUnwound
	case "verifPanicOK":
		st.PanicOK = true
		return nil, true, nil
	case "verifPick":
		// (name string, lo, hi int) int — a symbolic choice made concrete by forking
		lo, e1 := termArg(a[1])
		hi, e2 := termArg(a[2])
		if e1 != nil || e2 != nil || !lo.IsConst() || !hi.IsConst() {
			return nil, true, unknownf("verifPick bounds must be concrete")
		}
		key := fmt.Sprintf("pick:%d:%d", len(st.Frames), st.top().PC) + ":" + st.top().Fn.Name() + fmt.Sprint(st.top().Block.Index) + ":" + fmt.Sprint(st.top().Loop)
		_ = key
		v := r.nondet(st, strLit(a[0]), 64, false)
		st.Assume(smt.And(smt.SLe(lo, v), smt.SLe(v, hi)))
		// fork now over all values
		vals := []int64{}
		for k := lo.SVal(); k <= hi.SVal(); k++ {
			vals = append(vals, k)
		}
		for _, k := range vals[1:] {
			o := st.Fork()
			o.Assume(smt.Eq(v, smt.BVs(k, 64)))
			of := o.top()
			if cv, ok := of.Block.Instrs[of.PC].(ssa.Value); ok {
				r.set(o, cv, smt.BVs(k, 64))
			}
			of.PC++
			r.work = append(r.work, o)
		}
		st.Assume(smt.Eq(v, smt.BVs(vals[0], 64)))
		return []Value{smt.BVs(vals[0], 64)}, true, nil
	case "verifIteInt", "verifIteByte", "verifIteBool":
		c, e0 := termArg(a[0])
		x, e1 := termArg(a[1])
		y, e2 := termArg(a[2])
		if e0 != nil || e1 != nil || e2 != nil {
			return nil, true, unknownf("verifIte on non-scalars")
		}
		return []Value{smt.Ite(c, x, y)}, true, nil
	case "verifSnapByte":
		h, err := termArg(a[0])
		if err != nil || !h.IsConst() {
			return nil, true, unknownf("snapshot handle must be concrete")
		}
		j, err := termArg(a[1])
		if err != nil {
			return nil, true, err
		}
		sn, ok := st.Ghost[fmt.Sprintf("snap:%d", h.C)].(snapshot)
		if !ok {
			return nil, true, unknownf("unknown snapshot")
		}
		return []Value{sn.c.Read(smt.Add(sn.s.Off, j))}, true, nil
	case "verifAll":
		// (n int, f func(j int) bool) bool: for a fresh j, (0<=j<n) => f(j). Positive position only.
		n, err := termArg(a[0])
		if err != nil {
			return nil, true, err
		}
		fv, ok := a[1].(Func)
		if !ok || fv.Fn == nil {
			return nil, true, unknownf("verifAll needs a function")
		}
		pos0 := smt.SLt(zero64, n)
		hasPos := r.sat(st, pos0) != smt.Unsat
		hasNon := !pos0.IsTrue() && r.sat(st, smt.Not(pos0)) != smt.Unsat
		if !hasPos {
			return []Value{smt.True}, true, nil
		}
		if hasNon {
			o := st.Fork()
			o.Assume(smt.Not(pos0))
			of := o.top()
			if cv, ok := of.Block.Instrs[of.PC].(ssa.Value); ok {
				r.set(o, cv, smt.True)
			}
			of.PC++
			r.work = append(r.work, o)
		}
		st.Assume(pos0)
		j := smt.Var(r.Eng.Fresh("sk"), 64)
		st.Assume(smt.And(smt.SLe(zero64, j), smt.SLt(j, n)))
		caller := st.top()
		retTo, _ := caller.Block.Instrs[caller.PC].(ssa.Value)
		if err := r.pushCall(st, fv.Fn, []Value{j}, fv.Bind, retTo); err != nil {
			return nil, true, err
		}
		return nil, true, errUnwound
	case "verifObjID":
		if ifc, ok := a[0].(Iface); ok {
			if p, ok := ifc.V.(Ptr); ok {
				return []Value{smt.BV(uint64(p.ID), 64)}, true, nil
			}
		}
		if p, ok := a[0].(Ptr); ok {
			return []Value{smt.BV(uint64(p.ID), 64)}, true, nil
		}
		return nil, true, unknownf("verifObjID on %T", a[0])
	case "verifScribblePool", "verifFill":
		return nil, true, nil
	case "verifRopeNew":
		n := uint64(0)
		if v, ok := st.Ghost["ropen"]; ok {
			n = v.(*smt.Term).C
		}
		n++
		st.Ghost["ropen"] = smt.BV(n, 64)
		st.setRope(n, ropeVal{})
		return []Value{smt.BV(n, 64)}, true, nil
	case "verifRopeAppend", "verifRopeAppendByte", "verifRopeTrunc", "verifRopeInsert", "verifRopeMove", "verifRopeMoveCommitted", "verifRopeLen", "verifRopeMatch", "verifRopeByte":
		idT, err := termArg(a[0])
		if err != nil || !idT.IsConst() {
			return nil, true, unknownf("rope id must be concrete")
		}
		rp, ok := st.rope(idT.C)
		if !ok {
			return nil, true, unknownf("unknown rope")
		}
		switch name {
		case "verifRopeAppend":
			_, off, ln, c, ok := r.bytesOf(st, a[1])
			if !ok {
				return nil, true, unknownf("verifRopeAppend on %T", a[1])
			}
			np := append(append([]ropePiece(nil), rp.p...), ropePiece{c: c, off: off, n: ln})
			st.setRope(idT.C, ropeVal{p: np})
			return nil, true, nil
		case "verifRopeAppendByte":
			c, err := termArg(a[1])
			if err != nil {
				return nil, true, err
			}
			np := append(append([]ropePiece(nil), rp.p...), ropePiece{c: (&ByteFn{kind: bkZero}).write(zero64, c), off: zero64, n: smt.BV(1, 64)})
			st.setRope(idT.C, ropeVal{p: np})
			return nil, true, nil
		case "verifRopeTrunc":
			n, err := termArg(a[1])
			if err != nil {
				return nil, true, err
			}
			var np []ropePiece
			pre := zero64
			for _, pc := range rp.p {
				if pc.committed {
					np = append(np, pc)
					continue
				}
				// keep = clamp(n - pre, 0, pc.n)
				rem := smt.Sub(n, pre)
				keep := smt.Ite(smt.SLe(rem, zero64), zero64, smt.Ite(smt.SLt(pc.n, rem), pc.n, rem))
				np = append(np, ropePiece{c: pc.c, off: pc.off, n: keep})
				pre = smt.Add(pre, pc.n)
			}
			st.setRope(idT.C, ropeVal{p: np})
			return nil, true, nil
		case "verifRopeInsert":
			cut, err := termArg(a[1])
			if err != nil {
				return nil, true, err
			}
			_, off, ln, c, ok := r.bytesOf(st, a[2])
			if !ok {
				return nil, true, unknownf("verifRopeInsert on %T", a[2])
			}
			var heads, tails []ropePiece
			pre := zero64
			for _, pc := range rp.p {
				rem := smt.Sub(cut, pre)
				hd := smt.Ite(smt.SLe(rem, zero64), zero64, smt.Ite(smt.SLt(pc.n, rem), pc.n, rem))
				heads = append(heads, ropePiece{c: pc.c, off: pc.off, n: hd})
				tails = append(tails, ropePiece{c: pc.c, off: smt.Add(pc.off, hd), n: smt.Sub(pc.n, hd)})
				pre = smt.Add(pre, pc.n)
			}
			np := append(heads, ropePiece{c: c, off: off, n: ln})
			np = append(np, tails...)
			st.setRope(idT.C, ropeVal{p: np})
			return nil, true, nil
		case "verifRopeMove", "verifRopeMoveCommitted":
			srcT, err := termArg(a[1])
			if err != nil || !srcT.IsConst() {
				return nil, true, unknownf("rope id must be concrete")
			}
			src, ok := st.rope(srcT.C)
			if !ok {
				return nil, true, unknownf("unknown rope")
			}
			np := append([]ropePiece(nil), rp.p...)
			for _, pc := range src.p {
				if name == "verifRopeMoveCommitted" {
					pc.committed = true
				} else if idT.C != srcT.C {
					pc.committed = false
				}
				np = append(np, pc)
			}
			st.setRope(idT.C, ropeVal{p: np})
			st.setRope(srcT.C, ropeVal{})
			return nil, true, nil
		case "verifRopeLen":
			return []Value{r.ropeLen(rp)}, true, nil
		case "verifRopeMatch":
			pos, err := termArg(a[1])
			if err != nil {
				return nil, true, err
			}
			_, off, ln, c, ok := r.bytesOf(st, a[2])
			if !ok {
				return nil, true, unknownf("verifRopeMatch on %T", a[2])
			}
			return []Value{r.ropeMatch(st, rp, pos, c, off, ln)}, true, nil
		case "verifRopeByte":
			pos, err := termArg(a[1])
			if err != nil {
				return nil, true, err
			}
			return []Value{r.ropeByte(rp, pos)}, true, nil
		}
		return nil, true, unknownf("rope op")
	case "verifRopePrefix":
		// (a, b int, n int) bool: rope b (n bytes) equals the first n bytes of rope a
		ia, e1 := termArg(a[0])
		ib, e2 := termArg(a[1])
		if e1 != nil || e2 != nil || !ia.IsConst() || !ib.IsConst() {
			return nil, true, unknownf("rope ids must be concrete")
		}
		ra, ok1 := st.rope(ia.C)
		rb, ok2 := st.rope(ib.C)
		if !ok1 || !ok2 {
			return nil, true, unknownf("unknown rope")
		}
		acc := smt.True
		pos := zero64
		for _, pc := range rb.p {
			acc = smt.And(acc, r.ropeMatch(st, ra, pos, pc.c, pc.off, pc.n))
			pos = smt.Add(pos, pc.n)
		}
		return []Value{acc}, true, nil
	case "verifIsConcrete":
		t, err := termArg(a[0])
		if err != nil {
			return []Value{smt.False}, true, nil
		}
		return []Value{smt.BoolC(t.IsConst())}, true, nil
	}
	return nil, false, nil
}

type snapshot struct {
	s Slice
	c *ByteFn
}

func (r *Run) relabel(label string) string {
	if len(r.Relabel) > 0 && len(label) > 4 && label[3] == '/' {
		if np, ok := r.Relabel[label[:3]]; ok {
			return np + label[3:]
		}
	}
	return label
}

func (r *Run) assert(st *State, c *smt.Term, label string, pos token.Pos) {
	label = r.relabel(label)
	// assertions labelled for another property are that property's business
	if r.Prop != "" && len(label) > 4 && label[0] == 'C' && label[3] == '/' && label[:3] != r.Prop {
		return
	}
	r.Obligations++
	if c.IsTrue() {
		r.Discharged++
		r.Trivial++
		if len(r.Samples) < 3 {
			r.Samples = append(r.Samples, fmt.Sprintf("%s @%s: holds on this path by constant folding (path condition decided it)", label, st.pos(pos)))
		}
		return
	}
	res, m := r.model(st, smt.Not(c))
	if st.Rp != nil && os.Getenv("VERIF_RPDEBUG") != "" {
		fmt.Fprintf(os.Stderr, "    replay assert %s @%s idx=%d: %s cond=%s\n", label, st.pos(pos), st.Rp.Idx, res, c.String())
	}
	switch res {
	case smt.Unsat:
		r.Discharged++
	case smt.Unknown:
		r.UnknownObl++
		r.Notes = append(r.Notes, "assertion "+label+" at "+st.pos(pos)+": solver unknown")
	case smt.Sat:
		r.Violations = append(r.Violations, Violation{Label: label, Pos: st.pos(pos), Model: m,
			Nondets: append([]Nondet(nil), st.Nondets...), Log: st.Log, Stack: st.stack(), History: st.History()})
	}
	if len(r.Samples) < 6 {
		r.Samples = append(r.Samples, fmt.Sprintf("%s @%s: %s", label, st.pos(pos), res))
	}
	if st.Rp != nil && res == smt.Sat {
		// schedule replay: the model may well continue past a failing assertion
		return
	}
	st.Assume(c)
}
