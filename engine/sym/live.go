package sym

import (
	"fmt"

	"golang.org/x/tools/go/ssa"
)

// Per-function liveness over SSA registers (params, free vars, value-defining instructions).
// liveIn[b] = registers live at entry of block b (after its phis have been evaluated on the
// incoming edge); phi operands count as uses at the end of the corresponding predecessor.

type liveInfo struct {
	idx    map[ssa.Value]int
	n      int
	liveIn [][]uint64 // per block
	out    [][]uint64
}

func bsNew(n int) []uint64            { return make([]uint64, (n+63)/64) }
func bsSet(b []uint64, i int)         { b[i/64] |= 1 << uint(i%64) }
func bsClr(b []uint64, i int)         { b[i/64] &^= 1 << uint(i%64) }
func bsHas(b []uint64, i int) bool    { return b[i/64]&(1<<uint(i%64)) != 0 }
func bsCopy(b []uint64) []uint64      { c := make([]uint64, len(b)); copy(c, b); return c }
func bsOr(dst, src []uint64) (ch bool) {
	for i := range dst {
		n := dst[i] | src[i]
		if n != dst[i] {
			dst[i] = n
			ch = true
		}
	}
	return
}

func (e *Engine) liveness(fn *ssa.Function) *liveInfo {
	e.mu.Lock()
	if li, ok := e.live[fn]; ok {
		e.mu.Unlock()
		return li
	}
	e.mu.Unlock()
	idx, n := e.regs(fn)
	li := &liveInfo{idx: idx, n: n}
	nb := len(fn.Blocks)
	li.liveIn = make([][]uint64, nb)
	li.out = make([][]uint64, nb)
	for i := range li.liveIn {
		li.liveIn[i] = bsNew(n)
		li.out[i] = bsNew(n)
	}
	use := func(set []uint64, v ssa.Value) {
		if v == nil {
			return
		}
		if i, ok := idx[v]; ok {
			bsSet(set, i)
		}
	}
	changed := true
	for changed {
		changed = false
		for bi := nb - 1; bi >= 0; bi-- {
			b := fn.Blocks[bi]
			out := bsNew(n)
			for _, s := range b.Succs {
				// live-in of successor minus its phi defs, plus phi operands for this edge
				tmp := bsCopy(li.liveIn[s.Index])
				pi := -1
				for k, p := range s.Preds {
					if p == b {
						pi = k
						break
					}
				}
				for _, in := range s.Instrs {
					phi, ok := in.(*ssa.Phi)
					if !ok {
						break
					}
					if i, ok := idx[phi]; ok {
						bsClr(tmp, i)
					}
				}
				for _, in := range s.Instrs {
					phi, ok := in.(*ssa.Phi)
					if !ok {
						break
					}
					if pi >= 0 {
						use(tmp, phi.Edges[pi])
					}
				}
				bsOr(out, tmp)
			}
			li.out[bi] = out
			live := bsCopy(out)
			for k := len(b.Instrs) - 1; k >= 0; k-- {
				in := b.Instrs[k]
				if _, isPhi := in.(*ssa.Phi); isPhi {
					// phi defs stay "live" at block entry in the sense that they have been
					// assigned by the jump; keep them if used later
					continue
				}
				if v, ok := in.(ssa.Value); ok {
					if i, ok := idx[v]; ok {
						bsClr(live, i)
					}
				}
				var ops []*ssa.Value
				ops = in.Operands(ops)
				for _, op := range ops {
					if op != nil {
						use(live, *op)
					}
				}
			}
			if bsOr(li.liveIn[bi], live) {
				changed = true
			}
		}
	}
	e.mu.Lock()
	e.live[fn] = li
	e.mu.Unlock()
	return li
}

// liveAt returns the registers live just before instruction pc of block b.
func (li *liveInfo) liveAt(b *ssa.BasicBlock, pc int) []uint64 {
	live := bsCopy(li.out[b.Index])
	for k := len(b.Instrs) - 1; k >= pc; k-- {
		in := b.Instrs[k]
		if _, isPhi := in.(*ssa.Phi); isPhi {
			continue
		}
		if v, ok := in.(ssa.Value); ok {
			if i, ok := li.idx[v]; ok {
				bsClr(live, i)
			}
		}
		var ops []*ssa.Value
		ops = in.Operands(ops)
		for _, op := range ops {
			if op != nil {
				if i, ok := li.idx[*op]; ok {
					bsSet(live, i)
				}
			}
		}
	}
	return live
}


// DumpLive renders the live sets of fn (debugging aid).
func (e *Engine) DumpLive(fn *ssa.Function) string {
	li := e.liveness(fn)
	names := make([]string, li.n)
	for v, i := range li.idx {
		names[i] = v.Name()
	}
	out := ""
	for _, b := range fn.Blocks {
		for pc := range b.Instrs {
			live := li.liveAt(b, pc)
			s := ""
			for i := 0; i < li.n; i++ {
				if bsHas(live, i) {
					s += names[i] + " "
				}
			}
			out += fmt.Sprintf("b%d.%d %-40s live: %s\n", b.Index, pc, b.Instrs[pc].String(), s)
		}
	}
	return out
}
