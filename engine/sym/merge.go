package sym

import (
	"fmt"
	"sort"
	"strings"

	"verif/engine/smt"
)

// Canonical state keys and exact join merging (DESIGN 2.5 "Joins"). The key of a state at
// an event site is: call stack with program points, the live registers, and the thread-local
// heap reachable from them, with thread-local object ids renamed in visiting order and every
// symbolic scalar replaced by a placeholder. Two states with the same key differ only in the
// terms sitting in those placeholders ("slots"); the first arrival introduces one fresh join
// variable per slot, later arrivals bind the same join variables through equalities on their
// incoming edge — an SSA phi-merge, nothing is abstracted.

type canon struct {
	st      *State
	sb      strings.Builder
	names   map[int]int
	slots   []*smt.Term
	subst   []*smt.Term // when non-nil, slot k is replaced by subst[k]
	k       int
	pending []int // objects whose content still has to be visited
	proMax  int
	noDirty bool // name prologue objects by id even when this thread modified them
	withLoops bool
}

func (c *canon) local(id int) bool {
	if id > c.proMax {
		return true
	}
	if c.noDirty {
		return false
	}
	return c.st.Dirty[id]
}

func (c *canon) term(t *smt.Term) *smt.Term {
	if t.IsConst() {
		fmt.Fprintf(&c.sb, "c%d:%x,", int(t.S), t.C)
		return t
	}
	fmt.Fprintf(&c.sb, "s%d,", int(t.S))
	c.slots = append(c.slots, t)
	if c.subst != nil {
		r := c.subst[c.k]
		c.k++
		return r
	}
	c.k++
	return t
}

func (c *canon) obj(id int) {
	if id == 0 {
		c.sb.WriteString("nil,")
		return
	}
	if !c.local(id) {
		fmt.Fprintf(&c.sb, "P%d,", id)
		return
	}
	if n, ok := c.names[id]; ok {
		fmt.Fprintf(&c.sb, "L%d,", n)
		return
	}
	n := len(c.names)
	c.names[id] = n
	fmt.Fprintf(&c.sb, "L%d,", n)
	c.pending = append(c.pending, id)
}

func (c *canon) val(v Value) Value {
	switch x := v.(type) {
	case nil:
		c.sb.WriteString("_,")
		return nil
	case *smt.Term:
		return c.term(x)
	case Ptr:
		c.sb.WriteString("p")
		c.obj(x.ID)
		fmt.Fprintf(&c.sb, "%v", x.Path)
		if x.Idx != nil {
			return Ptr{ID: x.ID, Path: x.Path, Idx: c.term(x.Idx)}
		}
		return x
	case Slice:
		c.sb.WriteString("b")
		c.obj(x.ID)
		return Slice{ID: x.ID, Off: c.term(x.Off), Len: c.term(x.Len), Cap: c.term(x.Cap)}
	case GSlice:
		c.sb.WriteString("g")
		c.obj(x.ID)
		fmt.Fprintf(&c.sb, "%v:%d:%d:%d,", x.Path, x.Off, x.Len, x.Cap)
		return x
	case Str:
		if x.Lit != nil {
			fmt.Fprintf(&c.sb, "str%q,", *x.Lit)
			return x
		}
		c.sb.WriteString("str")
		c.obj(x.ID)
		return Str{ID: x.ID, Off: c.term(x.Off), Len: c.term(x.Len)}
	case Iface:
		if x.T == nil {
			c.sb.WriteString("inil,")
			return x
		}
		fmt.Fprintf(&c.sb, "i<%s>", x.T.String())
		return Iface{T: x.T, V: c.val(x.V)}
	case Func:
		if x.Fn == nil {
			fmt.Fprintf(&c.sb, "fn<%s>,", x.Builtin)
			return x
		}
		fmt.Fprintf(&c.sb, "fn<%s>(", x.Fn.String())
		var nb []Value
		for _, b := range x.Bind {
			nb = append(nb, c.val(b))
		}
		c.sb.WriteString("),")
		return Func{Fn: x.Fn, Bind: nb}
	case Struct:
		c.sb.WriteString("{")
		nf := make([]Value, len(x.F))
		for i, f := range x.F {
			nf[i] = c.val(f)
		}
		c.sb.WriteString("}")
		return Struct{F: nf}
	case Array:
		c.sb.WriteString("[")
		ne := make([]Value, len(x.E))
		for i, f := range x.E {
			ne[i] = c.val(f)
		}
		c.sb.WriteString("]")
		return Array{E: ne}
	case Tuple:
		c.sb.WriteString("(")
		ne := make([]Value, len(x.E))
		for i, f := range x.E {
			ne[i] = c.val(f)
		}
		c.sb.WriteString(")")
		return Tuple{E: ne}
	case Chan:
		c.sb.WriteString("ch")
		c.obj(x.ID)
		return x
	case Map:
		fmt.Fprintf(&c.sb, "map%d,", x.ID)
		return x
	case Opaque:
		fmt.Fprintf(&c.sb, "opq<%s>,", x.Why)
		return x
	}
	fmt.Fprintf(&c.sb, "?%T,", v)
	return v
}

// run visits the whole state. With subst == nil it only computes key and slots; with subst
// set it also rewrites the state in place (registers, defers, heap objects).
func (c *canon) run() {
	st := c.st
	fmt.Fprintf(&c.sb, "T%d|", st.Thread)
	for fi, f := range st.Frames {
		fmt.Fprintf(&c.sb, "F<%s>b%d.%d", f.Fn.String(), f.Block.Index, f.PC)
		if f.Unwinding {
			c.sb.WriteString("U")
		}
		if f.IsDeferred {
			c.sb.WriteString("D")
		}
		if c.withLoops && len(f.Loop) > 0 {
			var ks []int
			for k := range f.Loop {
				ks = append(ks, k)
			}
			sort.Ints(ks)
			for _, k := range ks {
				fmt.Fprintf(&c.sb, "l%d=%d", k, f.Loop[k])
			}
		}
		li := st.Eng.liveness(f.Fn)
		pc := f.PC
		if fi < len(st.Frames)-1 {
			pc = f.PC + 1
		}
		var live []uint64
		if pc <= len(f.Block.Instrs) {
			live = li.liveAt(f.Block, pc)
		} else {
			live = li.out[f.Block.Index]
		}
		for r := 0; r < len(f.Regs); r++ {
			if !bsHas(live, r) || f.Regs[r] == nil {
				if c.subst != nil {
					f.Regs[r] = nil // dead: drop so that it cannot leak stale terms
				}
				continue
			}
			fmt.Fprintf(&c.sb, "r%d=", r)
			nv := c.val(f.Regs[r])
			if c.subst != nil {
				f.Regs[r] = nv
			}
		}
		for di := range f.Defers {
			d := &f.Defers[di]
			c.sb.WriteString("defer:")
			if d.method != nil {
				c.sb.WriteString(d.method.FullName())
				nv := c.val(d.recv)
				if c.subst != nil {
					d.recv = nv
				}
			} else {
				nv := c.val(d.fn)
				if c.subst != nil {
					d.fn = nv
				}
			}
			var na []Value
			if c.subst != nil {
				na = make([]Value, len(d.args))
			}
			for ai := range d.args {
				nv := c.val(d.args[ai])
				if c.subst != nil {
					na[ai] = nv
				}
			}
			if c.subst != nil {
				d.args = na
			}
		}
		c.sb.WriteString("|")
	}
	if st.Panic != nil {
		c.sb.WriteString("PANIC:" + st.Panic.Msg + "|")
	}
	if st.PanicOK {
		c.sb.WriteString("POK|")
	}
	// spawn counters
	if len(st.Spawned) > 0 {
		var ks []string
		for k := range st.Spawned {
			ks = append(ks, k)
		}
		sort.Strings(ks)
		for _, k := range ks {
			fmt.Fprintf(&c.sb, "sp<%s>=%d", k, st.Spawned[k])
		}
	}
	// dirty prologue objects are part of the state even when no live register points at them
	var dirty []int
	for id := range st.Dirty {
		dirty = append(dirty, id)
	}
	sort.Ints(dirty)
	for _, id := range dirty {
		c.sb.WriteString("dirty:")
		c.obj(id)
	}
	// contents of local objects, in discovery order
	for len(c.pending) > 0 {
		id := c.pending[0]
		c.pending = c.pending[1:]
		o := st.Heap.Get(id)
		if o == nil {
			c.sb.WriteString("?obj,")
			continue
		}
		fmt.Fprintf(&c.sb, "O%d:", c.names[id])
		switch o.Kind {
		case OVal:
			nv := c.val(o.V)
			if c.subst != nil {
				n := *o
				n.V = nv
				st.Heap.Put(&n)
			}
		case OBytes:
			fmt.Fprintf(&c.sb, "bytes%p", o.Content)
			nc := c.term(o.Cap)
			if c.subst != nil {
				n := *o
				n.Cap = nc
				st.Heap.Put(&n)
			}
		case OChan:
			fmt.Fprintf(&c.sb, "chan%d/%v[", o.ChanCap, o.Closed)
			var nb []Value
			for _, b := range o.Buf {
				nb = append(nb, c.val(b))
			}
			c.sb.WriteString("]")
			if c.subst != nil {
				n := *o
				n.Buf = nb
				st.Heap.Put(&n)
			}
		}
	}
}

// stateKey computes the canonical key and the slot terms of st.
func (st *State) stateKey(proMax int) (string, []*smt.Term) {
	c := &canon{st: st, names: map[int]int{}, proMax: proMax}
	c.run()
	return c.sb.String(), c.slots
}

// rebase replaces every slot by the given join variables (same order as stateKey's slots).
func (st *State) rebase(proMax int, jv []*smt.Term) {
	c := &canon{st: st, names: map[int]int{}, proMax: proMax, subst: jv}
	c.run()
}


// valueKey: canonical text of a value including the contents of thread-local objects it
// reaches (named in visiting order). ok=false if it contains symbolic scalars.
func (st *State) valueKey(proMax int, v Value) (string, bool) {
	c := &canon{st: st, names: map[int]int{}, proMax: proMax, noDirty: true}
	c.val(v)
	for len(c.pending) > 0 {
		id := c.pending[0]
		c.pending = c.pending[1:]
		o := st.Heap.Get(id)
		if o == nil {
			continue
		}
		fmt.Fprintf(&c.sb, "O%d:", c.names[id])
		switch o.Kind {
		case OVal:
			c.val(o.V)
		case OBytes:
			fmt.Fprintf(&c.sb, "bytes%p", o.Content)
		case OChan:
			fmt.Fprintf(&c.sb, "chan%d", o.ChanCap)
		}
	}
	return c.sb.String(), len(c.slots) == 0
}
