package sym

import (
	"fmt"
	"go/constant"
	"go/token"
	"go/types"
	"strings"
	"time"

	"golang.org/x/tools/go/ssa"

	"verif/engine/smt"
)

type EndKind string

const (
	EndReturn     EndKind = "return"
	EndPanic      EndKind = "panic"
	EndBlocked    EndKind = "blocked"
	EndUnknown    EndKind = "unknown"
	EndBound      EndKind = "bound-exceeded"
	EndInfeasible EndKind = "infeasible"
	EndStop       EndKind = "stop"
	EndMerged     EndKind = "merged"
)

type End struct {
	Kind EndKind
	Msg  string
	St   *State
}

type Violation struct {
	Label   string
	Msg     string
	Pos     string
	Stack   string
	Model   map[string]uint64
	Nondets []Nondet
	Log     []LogEv
	Replayed *bool
	History string
}

// Run explores the paths of one harness function with one solver.
type Run struct {
	Eng    *Engine
	Solver *smt.Solver
	LIA    *smt.Solver
	LIAUnsat int
	Name   string

	work []*State
	Ends map[EndKind]int
	EndMsgs map[string]int

	Violations []Violation
	Obligations int // assertion queries posed
	Discharged  int // unsat
	Trivial     int
	KnownHits   int
	OneShots    int
	UnknownObl  int
	Feasibility int // branch feasibility queries
	Paths       int
	ReachHit    map[string]bool
	ReachModels map[string]map[string]uint64
	ReachNondets map[string][]Nondet
	Samples     []string
	Notes       []string
	MaxPaths    int
	PanicIsViolation bool
	BlockIsViolation bool
	Hook        MemHook
	LoopBound   int
	ReplayVals  []uint64
	Prop        string
	Relabel     map[string]string // label prefix (e.g. C01) -> prefix reported instead (harness directive relabel)
	OnEnd       func(e End)
	stopAll     bool
}

func NewRun(e *Engine, s *smt.Solver, name string) *Run {
	return &Run{Eng: e, Solver: s, Name: name, Ends: map[EndKind]int{}, EndMsgs: map[string]int{},
		ReachHit: map[string]bool{}, ReachModels: map[string]map[string]uint64{}, ReachNondets: map[string][]Nondet{},
		MaxPaths: 200000, PanicIsViolation: true, LoopBound: e.LoopBound}
}

type pathEnd struct {
	kind EndKind
	msg  string
}

func (e pathEnd) Error() string { return string(e.kind) + ": " + e.msg }

func unknownf(f string, a ...interface{}) error {
	return pathEnd{EndUnknown, fmt.Sprintf(f, a...)}
}

// sat checks pc ∧ extra.
func (r *Run) sat(st *State, extra ...*smt.Term) smt.Result {
	for _, x := range extra {
		if x.IsFalse() {
			return smt.Unsat
		}
	}
	r.Feasibility++
	if r.LIA != nil {
		if res, _, _ := r.LIA.Check(st.PC, extra, nil); res == smt.Unsat {
			r.LIAUnsat++
			return smt.Unsat
		}
	}
	res, _, _ := r.Solver.Check(st.PC, extra, nil)
	return res
}

func (r *Run) model(st *State, extra ...*smt.Term) (smt.Result, map[string]uint64) {
	as := make([]*smt.Term, 0, len(st.PC)+len(extra))
	as = append(as, st.PC...)
	as = append(as, extra...)
	var vars []*smt.Term
	seen := map[string]bool{}
	for _, n := range st.Nondets {
		for _, v := range smt.CollectVars([]*smt.Term{n.T}) {
			if !seen[v.Name] {
				seen[v.Name] = true
				vars = append(vars, v)
			}
		}
	}
	for _, v := range smt.CollectVars(as) {
		if !seen[v.Name] {
			seen[v.Name] = true
			vars = append(vars, v)
		}
	}
	if r.LIA != nil {
		if res, _, _ := r.LIA.Check(st.PC, extra, nil); res == smt.Unsat {
			r.LIAUnsat++
			return smt.Unsat, nil
		}
	}
	// assertion-class queries: short incremental attempt, then one-shot portfolio
	r.Solver.SetTimeout(1500)
	res, m, _ := r.Solver.Check(st.PC, extra, vars)
	r.Solver.SetTimeout(r.Solver.TimeoutMs)
	if res == smt.Unknown {
		for _, kind := range []string{"z3-new", "z3"} {
			r.OneShots++
			res, m, _ = smt.CheckOneShot(kind, st.PC, extra, vars, 60*time.Second)
			if res != smt.Unknown {
				break
			}
		}
	}
	return res, m
}

// Explore runs fn(args) from the given initial state to all path ends.
func (r *Run) Explore(st *State, fn *ssa.Function, args []Value) {
	st.Hook = r.Hook
	r.pushCall(st, fn, args, nil, nil)
	r.work = append(r.work, st)
	for len(r.work) > 0 && !r.stopAll {
		s := r.work[len(r.work)-1]
		r.work = r.work[:len(r.work)-1]
		r.runPath(s)
		if r.Paths >= r.MaxPaths {
			r.Notes = append(r.Notes, fmt.Sprintf("path budget %d exhausted with %d states pending", r.MaxPaths, len(r.work)))
			r.Ends[EndBound] += len(r.work)
			break
		}
	}
}

func (r *Run) endPath(st *State, kind EndKind, msg string) {
	r.Paths++
	r.Ends[kind]++
	if kind != EndReturn && kind != EndInfeasible {
		k := string(kind) + ": " + msg
		if len(k) > 200 {
			k = k[:200]
		}
		r.EndMsgs[k]++
	}
	if r.OnEnd != nil {
		r.OnEnd(End{Kind: kind, Msg: msg, St: st})
	}
}

func (r *Run) runPath(st *State) {
	for {
		if len(st.Frames) == 0 {
			if rp, ok := st.Hook.(*POReplay); ok && st.Hook != nil && st.Rp != nil {
				more, err := rp.threadEnd(r, st)
				if err == nil && more {
					continue
				}
			}
			r.endPath(st, EndReturn, "")
			return
		}
		st.Steps++
		if st.Steps > r.Eng.MaxSteps {
			r.endPath(st, EndBound, "step budget")
			return
		}
		err := r.step(st)
		if err != nil {
			if pe, ok := err.(pathEnd); ok {
				if pe.kind == EndPanic {
					// uncaught panic reached top
					if rp, ok := st.Hook.(*POReplay); ok && st.Hook != nil && st.Rp != nil && st.PanicOK {
						// a thread ended by a panic the harness allows: the others go on
						st.Panic = nil
						if more, err := rp.threadEnd(r, st); err == nil && more {
							continue
						}
						r.endPath(st, EndReturn, "")
						return
					}
					r.onUncaughtPanic(st)
					return
				}
				if pe.kind == EndBlocked && r.BlockIsViolation {
					r.Obligations++
					if res, m := r.model(st); res == smt.Sat {
						r.Violations = append(r.Violations, Violation{Label: "blocked", Msg: pe.msg, Pos: st.curPos(), Model: m,
							Nondets: append([]Nondet(nil), st.Nondets...), Log: st.Log, Stack: st.stack(), History: st.History()})
					} else if res == smt.Unsat {
						r.Discharged++
					} else {
						r.UnknownObl++
					}
				}
				if pe.kind == EndUnknown && r.Eng.Debug {
					fmt.Printf("  !! unknown: %s\n", pe.msg)
				}
				if pe.kind == EndUnknown {
					r.Eng.noteUnsupp(pe.msg)
					pe.msg = pe.msg + " @" + st.stack()
				}
				r.endPath(st, pe.kind, pe.msg)
				return
			}
			r.Eng.noteUnsupp(err.Error())
			r.endPath(st, EndUnknown, err.Error()+" @"+st.stack())
			return
		}
	}
}

func (r *Run) onUncaughtPanic(st *State) {
	msg := ""
	pos := ""
	if st.Panic != nil {
		msg = st.Panic.Msg
		pos = st.Panic.Pos
	}
	if r.PanicIsViolation && !st.PanicOK {
		r.Obligations++
		res, m := r.model(st)
		if res == smt.Sat {
			r.Violations = append(r.Violations, Violation{Label: "panic", Msg: msg, Pos: pos, Model: m,
				Nondets: append([]Nondet(nil), st.Nondets...), Log: st.Log, Stack: pos, History: st.History()})
		} else if res == smt.Unknown {
			r.UnknownObl++
		} else {
			r.Discharged++
		}
	}
	r.endPath(st, EndPanic, msg+" at "+pos)
}

// ---------------------------------------------------------------- operand evaluation

func (r *Run) constVal(st *State, c *ssa.Const) Value {
	t := c.Type()
	if c.Value == nil {
		return Zero(t)
	}
	switch u := t.Underlying().(type) {
	case *types.Basic:
		switch {
		case u.Info()&types.IsBoolean != 0:
			return smt.BoolC(constant.BoolVal(c.Value))
		case u.Info()&types.IsString != 0:
			s := constant.StringVal(c.Value)
			return Str{Off: zero64, Len: smt.BV(uint64(len(s)), 64), Lit: &s}
		case u.Info()&types.IsInteger != 0:
			w, _, _ := bitsOf(t)
			if v, ok := constant.Int64Val(c.Value); ok {
				return smt.BVs(v, w)
			}
			if v, ok := constant.Uint64Val(c.Value); ok {
				return smt.BV(v, w)
			}
		}
	}
	return Opaque{T: t, Why: "const " + c.String()}
}

func (r *Run) get(st *State, v ssa.Value) Value {
	switch x := v.(type) {
	case *ssa.Const:
		return r.constVal(st, x)
	case *ssa.Global:
		return Ptr{ID: r.globalObj(st, x)}
	case *ssa.Function:
		return Func{Fn: x}
	case *ssa.Builtin:
		return Func{Builtin: x.Name()}
	}
	f := st.top()
	i, ok := f.idx[v]
	if !ok {
		return Opaque{T: v.Type(), Why: "unknown register " + v.Name()}
	}
	return f.Regs[i]
}

func (r *Run) set(st *State, v ssa.Value, val Value) {
	f := st.top()
	f.Regs[f.idx[v]] = val
}

func (r *Run) globalObj(st *State, g *ssa.Global) int {
	if id, ok := st.Globals[g]; ok {
		return id
	}
	et := g.Type().(*types.Pointer).Elem()
	o := st.NewObj(et, Zero(et), "global "+g.String())
	o.Thread = -1
	st.Globals[g] = o.ID
	return o.ID
}

// ---------------------------------------------------------------- memory

func (r *Run) load(st *State, p Ptr, t types.Type, pos token.Pos) (Value, error) {
	if p.ID == 0 {
		return nil, r.startPanic(st, "nil pointer dereference", pos)
	}
	if st.Hook != nil {
		if v, ok, err := st.Hook.Load(st, p, t, false, pos); ok || err != nil {
			return v, err
		}
	}
	return r.rawLoad(st, p, t)
}

func (r *Run) rawLoad(st *State, p Ptr, t types.Type) (Value, error) {
	o := st.Heap.Get(p.ID)
	if o == nil {
		return nil, unknownf("load from unknown object %d", p.ID)
	}
	if o.Kind == OBytes {
		if p.Idx == nil {
			return nil, unknownf("byte load without index")
		}
		return o.Content.Read(p.Idx), nil
	}
	v, err := getPath(o.V, p.Path)
	if err != nil {
		return nil, unknownf("load: %v", err)
	}
	if v == nil {
		return nil, unknownf("load of an undefined value at o%d%v (%s) — interpreter bug", p.ID, p.Path, o.Site)
	}
	return v, nil
}

func (r *Run) store(st *State, p Ptr, v Value, pos token.Pos) error {
	if p.ID == 0 {
		return r.startPanic(st, "nil pointer dereference (store)", pos)
	}
	if st.Hook != nil {
		if ok, err := st.Hook.Store(st, p, v, false, pos); ok || err != nil {
			return err
		}
	}
	return r.rawStore(st, p, v)
}

func (r *Run) rawStore(st *State, p Ptr, v Value) error {
	o := st.Heap.Get(p.ID)
	if o == nil {
		return unknownf("store to unknown object %d", p.ID)
	}
	if o.Kind == OBytes {
		t, ok := v.(*smt.Term)
		if !ok || p.Idx == nil {
			return unknownf("bad byte store")
		}
		n := *o
		n.Content = o.Content.write(p.Idx, t)
		st.Heap.Put(&n)
		return nil
	}
	nv, err := setPath(o.V, p.Path, v)
	if err != nil {
		return unknownf("store: %v", err)
	}
	n := *o
	n.V = nv
	st.Heap.Put(&n)
	return nil
}

// ---------------------------------------------------------------- panics

// startPanic begins unwinding; returns nil if execution continues in a deferred call,
// or a pathEnd{EndPanic} when the panic leaves the outermost frame.
func (r *Run) startPanic(st *State, msg string, pos token.Pos) error {
	s := msg
	st.Panic = &PanicInfo{Val: Iface{T: types.Typ[types.String], V: Str{Off: zero64, Len: smt.BV(uint64(len(s)), 64), Lit: &s}}, Msg: msg, Pos: st.pos(pos)}
	if !pos.IsValid() {
		st.Panic.Pos = st.curPos()
	}
	st.Panic.Pos = st.Panic.Pos + " [" + st.stack() + "]"
	return r.unwind(st)
}

var errUnwound = fmt.Errorf("unwound")

func (r *Run) unwind(st *State) error {
	for {
		if len(st.Frames) == 0 {
			return pathEnd{EndPanic, st.Panic.Msg}
		}
		f := st.top()
		if len(f.Defers) > 0 {
			d := f.Defers[len(f.Defers)-1]
			f.Defers = f.Defers[:len(f.Defers)-1]
			f.Unwinding = true
			if po, ok := st.Hook.(*PO); ok && st.Hook != nil && po.deferredIsSite(st, d) {
				if _, merged := po.atSite(st, token.NoPos); merged {
					return pathEnd{EndMerged, ""}
				}
			}
			if rp, ok := st.Hook.(*POReplay); ok && st.Hook != nil && (st.Rp == nil || !st.Rp.Probe) && rp.PO.deferredIsSite(st, d) {
				if !rp.nextIsCurrent(st) {
					// (the panic record is per state, not per thread)
					rp.note(st, "thread switch in the middle of a panic unwinding is not supported by the replay")
					return pathEnd{EndInfeasible, "replay: switch during unwinding"}
				}
				act, err := rp.atSite(r, st, st.curPos())
				if err != nil {
					return err
				}
				switch act {
				case rpSwitched:
					f.Defers = append(f.Defers, d)
					return nil
				case rpStop:
					return pathEnd{EndInfeasible, "replay: schedule complete"}
				case rpDiverged:
					return pathEnd{EndInfeasible, "replay: diverged"}
				}
			}
			nf := len(st.Frames)
			if err := r.callDeferred(st, d); err != nil {
				return err
			}
			if len(st.Frames) == nf && st.top() == f {
				// the deferred call was executed inline (intrinsic / builtin): keep unwinding
				continue
			}
			return errUnwound
		}
		if st.Panic == nil {
			// recovered: function returns normally via its Recover block
			f.Unwinding = false
			if f.Fn.Recover != nil {
				f.Prev = f.Block
				f.Block = f.Fn.Recover
				f.PC = 0
				return errUnwound
			}
			// return zero values
			res := f.Fn.Signature.Results()
			var vals []Value
			for i := 0; i < res.Len(); i++ {
				vals = append(vals, Zero(res.At(i).Type()))
			}
			if err := r.doReturn(st, vals); err != nil {
				return err
			}
			return errUnwound
		}
		// pop frame and continue in caller
		isGoRoot := f.IsGoRoot
		st.Frames = st.Frames[:len(st.Frames)-1]
		if isGoRoot {
			return pathEnd{EndPanic, st.Panic.Msg}
		}
		if f.IsDeferred {
			// a deferred call panicked: parent continues unwinding with the new panic
			continue
		}
	}
}

func (r *Run) callDeferred(st *State, d deferRec) error {
	if d.method != nil {
		return r.invoke(st, d.recv, d.method, d.args, nil, true, token.NoPos)
	}
	fn, ok := d.fn.(Func)
	if !ok {
		return unknownf("deferred non-func %T", d.fn)
	}
	return r.callValue(st, fn, d.args, nil, true, token.NoPos)
}

// ---------------------------------------------------------------- calls

func (r *Run) pushCall(st *State, fn *ssa.Function, args []Value, bind []Value, retTo ssa.Value) error {
	if len(st.Frames) > r.Eng.MaxDepth {
		return pathEnd{EndBound, "call depth"}
	}
	if fn.Blocks == nil {
		return unknownf("no body: %s", fn.String())
	}
	idx, n := r.Eng.regs(fn)
	f := &Frame{Fn: fn, Block: fn.Blocks[0], idx: idx, Regs: make([]Value, n), RetTo: retTo}
	if len(args) != len(fn.Params) {
		return unknownf("arity mismatch calling %s: %d vs %d", fn.String(), len(args), len(fn.Params))
	}
	for i, p := range fn.Params {
		f.Regs[idx[p]] = args[i]
	}
	for i, fv := range fn.FreeVars {
		if i < len(bind) {
			f.Regs[idx[fv]] = bind[i]
		}
	}
	r.Eng.noteEntered(fn)
	st.Frames = append(st.Frames, f)
	return nil
}

func (r *Run) doReturn(st *State, vals []Value) error {
	f := st.top()
	st.Frames = st.Frames[:len(st.Frames)-1]
	if f.OnReturn != nil {
		vals = f.OnReturn(vals)
	}
	if len(st.Frames) == 0 {
		st.Result = vals
		return nil
	}
	caller := st.top()
	if f.IsDeferred {
		if caller.Unwinding {
			err := r.unwind(st)
			if err == errUnwound {
				return nil
			}
			return err
		}
		// normal RunDefers: re-execute the RunDefers instruction (PC not advanced)
		return nil
	}
	if f.RetTo != nil {
		var v Value
		switch len(vals) {
		case 0:
			v = Tuple{}
		case 1:
			v = vals[0]
		default:
			v = Tuple{E: vals}
		}
		caller.Regs[caller.idx[f.RetTo]] = v
	}
	caller.PC++
	return nil
}

// callValue calls a function value. If deferred, the new frame is marked so that return
// resumes defer processing in the parent.
func (r *Run) callValue(st *State, fn Func, args []Value, retTo ssa.Value, deferred bool, pos token.Pos) error {
	if fn.Builtin != "" {
		v, err := r.builtin(st, fn.Builtin, args, nil, pos)
		if err != nil {
			return err
		}
		if deferred {
			return nil
		}
		if retTo != nil {
			r.set(st, retTo, v)
		}
		st.top().PC++
		return nil
	}
	if fn.Fn == nil {
		return r.startPanic(st, "call of nil function", pos)
	}
	return r.callFn(st, fn.Fn, args, fn.Bind, retTo, deferred, pos)
}

func (r *Run) callFn(st *State, fn *ssa.Function, args []Value, bind []Value, retTo ssa.Value, deferred bool, pos token.Pos) error {
	name := fn.String()
	if fn.Synthetic == "package initializer" && (fn.Pkg == nil || fn.Pkg.Pkg.Path() != r.Eng.InitTarget) {
		return r.finishDirect(st, fn, nil, retTo, deferred)
	}
	if stub, ok := r.Eng.Stubs[name]; ok {
		fn = stub
		name = fn.String()
		bind = nil
	}
	// intrinsics
	if strings.HasPrefix(fn.Name(), "verif") {
		vals, handled, err := r.verifIntrinsic(st, fn, args, pos)
		if err != nil {
			if err == errUnwound {
				return nil
			}
			return err
		}
		if handled {
			return r.finishDirect(st, fn, vals, retTo, deferred)
		}
	}
	if h, ok := intrinsics[name]; ok {
		vals, err := h(r, st, fn, args, pos)
		if err != nil {
			if err == errUnwound {
				return nil
			}
			return err
		}
		return r.finishDirect(st, fn, vals, retTo, deferred)
	}
	if fn.Blocks == nil || (!r.Eng.AllowFns[name] && ((fn.Pkg != nil && r.Eng.DenyPkgs[fn.Pkg.Pkg.Path()]) || (fn.Pkg == nil && r.denyMethod(fn)))) {
		vals, err := r.external(st, fn, args, pos)
		if err != nil {
			return err
		}
		return r.finishDirect(st, fn, vals, retTo, deferred)
	}
	if err := r.pushCall(st, fn, args, bind, retTo); err != nil {
		return err
	}
	if deferred {
		st.top().IsDeferred = true
	}
	return nil
}

func (r *Run) denyMethod(fn *ssa.Function) bool {
	// synthetic wrappers have nil Pkg; look at the receiver's package
	if fn.Signature.Recv() != nil {
		if p := fn.Signature.Recv().Pkg(); p != nil {
			return r.Eng.DenyPkgs[p.Path()]
		}
	}
	if fn.Object() != nil && fn.Object().Pkg() != nil {
		return r.Eng.DenyPkgs[fn.Object().Pkg().Path()]
	}
	return false
}

func (r *Run) finishDirect(st *State, fn *ssa.Function, vals []Value, retTo ssa.Value, deferred bool) error {
	if deferred {
		return nil
	}
	if len(st.Frames) == 0 {
		return nil
	}
	if retTo != nil {
		var v Value
		switch len(vals) {
		case 0:
			v = Tuple{}
		case 1:
			v = vals[0]
		default:
			v = Tuple{E: vals}
		}
		r.set(st, retTo, v)
	}
	st.top().PC++
	return nil
}

// external: a function the encoder does not interpret. Results are opaque.
func (r *Run) external(st *State, fn *ssa.Function, args []Value, pos token.Pos) ([]Value, error) {
	res := fn.Signature.Results()
	var vals []Value
	for i := 0; i < res.Len(); i++ {
		vals = append(vals, Opaque{T: res.At(i).Type(), Why: "result of " + fn.String()})
	}
	return vals, nil
}

func (r *Run) invoke(st *State, recv Value, m *types.Func, args []Value, retTo ssa.Value, deferred bool, pos token.Pos) error {
	ifc, ok := recv.(Iface)
	if !ok {
		if _, isOp := recv.(Opaque); isOp {
			return unknownf("invoke %s on opaque value", m.Name())
		}
		return unknownf("invoke on non-interface %T", recv)
	}
	if ifc.T == nil {
		return r.startPanic(st, "invalid memory address or nil pointer dereference (method "+m.Name()+" on nil interface)", pos)
	}
	fn := r.Eng.Prog.LookupMethod(ifc.T, m.Pkg(), m.Name())
	if fn == nil {
		return unknownf("method %s not found on %s", m.Name(), ifc.T)
	}
	all := append([]Value{ifc.V}, args...)
	return r.callFn(st, fn, all, nil, retTo, deferred, pos)
}

// ---------------------------------------------------------------- step

func (r *Run) step(st *State) error {
	f := st.top()
	if f.PC >= len(f.Block.Instrs) {
		return unknownf("fell off block")
	}
	in := f.Block.Instrs[f.PC]
	if st.Hook != nil {
		if rp, ok := st.Hook.(*POReplay); ok && (st.Rp == nil || !st.Rp.Probe) && rp.PO.isSite(r, st, in) {
			pos := st.pos(in.Pos())
			if pos == "" {
				pos = st.curPos()
			}
			act, err := rp.atSite(r, st, pos)
			if err != nil {
				return err
			}
			switch act {
			case rpSwitched:
				return nil
			case rpStop:
				return pathEnd{EndInfeasible, "replay: schedule complete"}
			case rpDiverged:
				return pathEnd{EndInfeasible, "replay: diverged"}
			}
		}
		if po, ok := st.Hook.(*PO); ok {
			if st.Resume != nil && st.Resume.instr != in {
				st.Resume = nil
			}
			if st.Resume == nil && po.isSite(r, st, in) {
				if _, merged := po.atSite(st, in.Pos()); merged {
					return pathEnd{EndMerged, ""}
				}
				f = st.top()
			}
		}
	}
	if r.Eng.Debug {
		fmt.Printf("  [%s b%d.%d] %s\n", f.Fn.Name(), f.Block.Index, f.PC, in.String())
	}
	err := r.exec(st, f, in)
	if err == errUnwound {
		return nil
	}
	return err
}

func (r *Run) jump(st *State, f *Frame, to *ssa.BasicBlock) error {
	// loop bound: count visits of blocks reached via back edges
	if to.Index <= f.Block.Index {
		if f.Loop == nil {
			f.Loop = map[int]int{}
		}
		f.Loop[to.Index]++
		if f.Loop[to.Index] > r.LoopBound {
			return pathEnd{EndBound, fmt.Sprintf("loop bound %d at %s in %s", r.LoopBound, st.pos(firstPos(to)), f.Fn.Name())}
		}
	}
	f.Prev = f.Block
	f.Block = to
	f.PC = 0
	// phis evaluated in parallel
	var vals []Value
	var phis []*ssa.Phi
	for _, in := range to.Instrs {
		phi, ok := in.(*ssa.Phi)
		if !ok {
			break
		}
		pi := -1
		for i, p := range to.Preds {
			if p == f.Prev {
				pi = i
				break
			}
		}
		if pi < 0 {
			return unknownf("phi pred not found")
		}
		vals = append(vals, r.get(st, phi.Edges[pi]))
		phis = append(phis, phi)
	}
	for i, phi := range phis {
		r.set(st, phi, vals[i])
	}
	f.PC = len(phis)
	return nil
}

func firstPos(b *ssa.BasicBlock) token.Pos {
	for _, in := range b.Instrs {
		if in.Pos().IsValid() {
			return in.Pos()
		}
	}
	return token.NoPos
}

func (r *Run) exec(st *State, f *Frame, in ssa.Instruction) error {
	switch x := in.(type) {
	case *ssa.DebugRef:
		f.PC++
		return nil

	case *ssa.Alloc:
		et := x.Type().(*types.Pointer).Elem()
		o := st.NewObj(et, Zero(et), st.pos(x.Pos()))
		r.set(st, x, Ptr{ID: o.ID})
		f.PC++
		return nil

	case *ssa.Store:
		p, ok := r.get(st, x.Addr).(Ptr)
		if !ok {
			return unknownf("store through %T", r.get(st, x.Addr))
		}
		sv := r.get(st, x.Val)
		if sv == nil {
			return unknownf("store of an undefined register %s in %s — interpreter bug", x.Val.Name(), f.Fn.Name())
		}
		if err := r.store(st, p, sv, x.Pos()); err != nil {
			return err
		}
		f.PC++
		return nil

	case *ssa.UnOp:
		return r.unop(st, f, x)

	case *ssa.BinOp:
		v, err := r.binop(st, x.Op, r.get(st, x.X), r.get(st, x.Y), x.X.Type(), x.Pos())
		if err != nil {
			return err
		}
		r.set(st, x, v)
		f.PC++
		return nil

	case *ssa.FieldAddr:
		p, ok := r.get(st, x.X).(Ptr)
		if !ok {
			return unknownf("fieldaddr of %T (%s = %s; resume=%v)", r.get(st, x.X), x.Name(), x.String(), st.Resume != nil)
		}
		if p.ID == 0 {
			return r.startPanic(st, "nil pointer dereference (field "+fieldName(x)+")", x.Pos())
		}
		r.set(st, x, p.sub(x.Field))
		f.PC++
		return nil

	case *ssa.Field:
		s, ok := r.get(st, x.X).(Struct)
		if !ok {
			return unknownf("field of %T", r.get(st, x.X))
		}
		r.set(st, x, s.F[x.Field])
		f.PC++
		return nil

	case *ssa.IndexAddr:
		return r.indexAddr(st, f, x)

	case *ssa.Index:
		return r.index(st, f, x)

	case *ssa.Slice:
		return r.sliceOp(st, f, x)

	case *ssa.MakeSlice:
		return r.makeSlice(st, f, x)

	case *ssa.Phi:
		return unknownf("phi executed directly")

	case *ssa.If:
		c, ok := r.get(st, x.Cond).(*smt.Term)
		if !ok {
			return unknownf("branch on %s", vstr(r.get(st, x.Cond)))
		}
		succT, succF := f.Block.Succs[0], f.Block.Succs[1]
		if c.IsTrue() {
			return r.jump(st, f, succT)
		}
		if c.IsFalse() {
			return r.jump(st, f, succF)
		}
		if kv, ok := st.KnownVal(c); ok {
			r.KnownHits++
			if kv {
				return r.jump(st, f, succT)
			}
			return r.jump(st, f, succF)
		}
		rt := r.sat(st, c)
		rf := smt.Sat
		if rt != smt.Unsat {
			rf = r.sat(st, smt.Not(c))
		}
		if rt == smt.Unknown || rf == smt.Unknown {
			r.Notes = append(r.Notes, "feasibility unknown at "+st.pos(x.Pos())+" (both sides kept)")
		}
		tOK, fOK := rt != smt.Unsat, rf != smt.Unsat
		switch {
		case tOK && fOK:
			o := st.Fork()
			o.Assume(smt.Not(c))
			if err := r.jump(o, o.top(), succF); err != nil {
				if pe, ok := err.(pathEnd); ok {
					r.endPath(o, pe.kind, pe.msg)
				} else {
					return err
				}
			} else {
				r.work = append(r.work, o)
			}
			st.Assume(c)
			return r.jump(st, f, succT)
		case tOK:
			st.Assume(c)
			return r.jump(st, f, succT)
		case fOK:
			st.Assume(smt.Not(c))
			return r.jump(st, f, succF)
		}
		return pathEnd{EndInfeasible, "both branches infeasible"}

	case *ssa.Jump:
		return r.jump(st, f, f.Block.Succs[0])

	case *ssa.Return:
		var vals []Value
		for _, v := range x.Results {
			vals = append(vals, r.get(st, v))
		}
		return r.doReturn(st, vals)

	case *ssa.Call:
		return r.call(st, f, x, &x.Call, x, false)

	case *ssa.Defer:
		c := &x.Call
		var d deferRec
		for _, a := range c.Args {
			d.args = append(d.args, r.get(st, a))
		}
		if c.IsInvoke() {
			d.recv = r.get(st, c.Value)
			d.method = c.Method
		} else {
			d.fn = r.get(st, c.Value)
		}
		f.Defers = append(f.Defers, d)
		f.PC++
		return nil

	case *ssa.RunDefers:
		if len(f.Defers) == 0 {
			f.PC++
			return nil
		}
		d := f.Defers[len(f.Defers)-1]
		f.Defers = f.Defers[:len(f.Defers)-1]
		if po, ok := st.Hook.(*PO); ok && st.Hook != nil && po.deferredIsSite(st, d) {
			// a deferred sync/atomic call is an event of its own
			if _, merged := po.atSite(st, x.Pos()); merged {
				return pathEnd{EndMerged, ""}
			}
		}
		if rp, ok := st.Hook.(*POReplay); ok && st.Hook != nil && (st.Rp == nil || !st.Rp.Probe) && rp.PO.deferredIsSite(st, d) {
			pos := st.pos(x.Pos())
			if pos == "" {
				pos = st.curPos()
			}
			act, err := rp.atSite(r, st, pos)
			if err != nil {
				return err
			}
			switch act {
			case rpSwitched:
				f.Defers = append(f.Defers, d)
				return nil
			case rpStop:
				return pathEnd{EndInfeasible, "replay: schedule complete"}
			case rpDiverged:
				return pathEnd{EndInfeasible, "replay: diverged"}
			}
		}
		return r.callDeferred(st, d)

	case *ssa.Go:
		c := &x.Call
		var args []Value
		for _, a := range c.Args {
			args = append(args, r.get(st, a))
		}
		_, isReplay := st.Hook.(*POReplay)
		if po, ok := st.Hook.(*PO); (ok || isReplay) && st.Hook != nil {
			var fv Func
			if c.IsInvoke() {
				ifc, ok := r.get(st, c.Value).(Iface)
				if !ok || ifc.T == nil {
					return unknownf("go on bad interface")
				}
				fn := r.Eng.Prog.LookupMethod(ifc.T, c.Method.Pkg(), c.Method.Name())
				if fn == nil {
					return unknownf("go: method not found")
				}
				fv = Func{Fn: fn}
				args = append([]Value{ifc.V}, args...)
			} else {
				var ok bool
				fv, ok = r.get(st, c.Value).(Func)
				if !ok {
					return unknownf("go on %T", r.get(st, c.Value))
				}
			}
			if isReplay {
				if err := st.Hook.(*POReplay).spawn(r, st, fv, args); err != nil {
					return err
				}
			} else if err := po.spawn(st, fv, args, x.Pos()); err != nil {
				return err
			}
			f.PC++
			return nil
		}
		if c.IsInvoke() {
			ifc, ok := r.get(st, c.Value).(Iface)
			if !ok || ifc.T == nil {
				return unknownf("go on bad interface")
			}
			fn := r.Eng.Prog.LookupMethod(ifc.T, c.Method.Pkg(), c.Method.Name())
			if fn == nil {
				return unknownf("go: method not found")
			}
			st.Pending = append(st.Pending, pendingGo{Fn: Func{Fn: fn}, Args: append([]Value{ifc.V}, args...)})
		} else {
			fv, ok := r.get(st, c.Value).(Func)
			if !ok {
				return unknownf("go on %T", r.get(st, c.Value))
			}
			st.Pending = append(st.Pending, pendingGo{Fn: fv, Args: args})
		}
		f.PC++
		return nil

	case *ssa.Panic:
		v := r.get(st, x.X)
		msg := "panic: " + vstr(v)
		st.Panic = &PanicInfo{Val: v, Msg: msg, Pos: st.pos(x.Pos()) + " [" + st.stack() + "]"}
		err := r.unwind(st)
		return err

	case *ssa.MakeClosure:
		var bind []Value
		for _, b := range x.Bindings {
			bind = append(bind, r.get(st, b))
		}
		r.set(st, x, Func{Fn: x.Fn.(*ssa.Function), Bind: bind})
		f.PC++
		return nil

	case *ssa.MakeInterface:
		r.set(st, x, Iface{T: x.X.Type(), V: r.get(st, x.X)})
		f.PC++
		return nil

	case *ssa.ChangeInterface:
		r.set(st, x, r.get(st, x.X))
		f.PC++
		return nil

	case *ssa.ChangeType:
		r.set(st, x, r.get(st, x.X))
		f.PC++
		return nil

	case *ssa.Convert:
		v, err := r.convert(st, r.get(st, x.X), x.X.Type(), x.Type())
		if err != nil {
			return err
		}
		r.set(st, x, v)
		f.PC++
		return nil

	case *ssa.TypeAssert:
		return r.typeAssert(st, f, x)

	case *ssa.Extract:
		t, ok := r.get(st, x.Tuple).(Tuple)
		if !ok {
			if op, isOp := r.get(st, x.Tuple).(Opaque); isOp {
				r.set(st, x, Opaque{T: x.Type(), Why: op.Why})
				f.PC++
				return nil
			}
			return unknownf("extract from %T", r.get(st, x.Tuple))
		}
		r.set(st, x, t.E[x.Index])
		f.PC++
		return nil

	case *ssa.MakeChan:
		sz, ok := r.get(st, x.Size).(*smt.Term)
		if !ok || !sz.IsConst() {
			return unknownf("makechan symbolic size")
		}
		o := &Object{ID: st.newID(), Kind: OChan, T: x.Type(), ChanCap: int(sz.C), Site: st.pos(x.Pos()), Thread: st.Thread}
		st.Heap.Put(o)
		r.set(st, x, Chan{ID: o.ID})
		f.PC++
		return nil

	case *ssa.Send:
		return r.chanSend(st, f, x)

	case *ssa.Select:
		return r.selectOp(st, f, x)

	case *ssa.MakeMap:
		o := st.NewObj(x.Type(), Struct{}, "map")
		r.set(st, x, Map{ID: o.ID})
		f.PC++
		return nil
	case *ssa.MapUpdate:
		return unknownf("mapupdate")
	case *ssa.Lookup:
		return unknownf("lookup")
	case *ssa.Range:
		return unknownf("range")
	case *ssa.Next:
		return unknownf("next")
	case *ssa.SliceToArrayPointer:
		return unknownf("slicetoarrayptr")
	}
	return unknownf("instruction %T", in)
}

func fieldName(x *ssa.FieldAddr) string {
	st, ok := x.X.Type().Underlying().(*types.Pointer).Elem().Underlying().(*types.Struct)
	if !ok {
		return "?"
	}
	return st.Field(x.Field).Name()
}

func (r *Run) call(st *State, f *Frame, instr ssa.Instruction, c *ssa.CallCommon, retTo ssa.Value, deferred bool) error {
	var args []Value
	for _, a := range c.Args {
		args = append(args, r.get(st, a))
	}
	if c.IsInvoke() {
		return r.invoke(st, r.get(st, c.Value), c.Method, args, retTo, deferred, instr.Pos())
	}
	switch fv := c.Value.(type) {
	case *ssa.Builtin:
		v, err := r.builtin(st, fv.Name(), args, c, instr.Pos())
		if err != nil {
			return err
		}
		if retTo != nil {
			r.set(st, retTo, v)
		}
		st.top().PC++
		return nil
	case *ssa.Function:
		return r.callFn(st, fv, args, nil, retTo, deferred, instr.Pos())
	}
	v := r.get(st, c.Value)
	fn, ok := v.(Func)
	if !ok {
		return unknownf("call of %s", vstr(v))
	}
	return r.callValue(st, fn, args, retTo, deferred, instr.Pos())
}

// guard checks an implicit run-time condition; forks a panic path if it can fail.
func (r *Run) guard(st *State, ok *smt.Term, msg string, pos token.Pos) error {
	if ok.IsTrue() {
		return nil
	}
	if ok.IsFalse() {
		return r.startPanic(st, msg, pos)
	}
	if kv, known := st.KnownVal(ok); known && kv {
		return nil
	}
	bad := r.sat(st, smt.Not(ok))
	if bad == smt.Unsat {
		return nil
	}
	if bad == smt.Unknown {
		r.Notes = append(r.Notes, "guard unknown at "+st.pos(pos)+": "+msg)
	}
	good := r.sat(st, ok)
	if good == smt.Unsat {
		st.Assume(smt.Not(ok))
		return r.startPanic(st, msg, pos)
	}
	o := st.Fork()
	o.Assume(smt.Not(ok))
	err := r.startPanic(o, msg, pos)
	if err == nil || err == errUnwound {
		r.work = append(r.work, o)
	} else if pe, isPE := err.(pathEnd); isPE {
		if pe.kind == EndPanic {
			r.onUncaughtPanic(o)
		} else {
			r.endPath(o, pe.kind, pe.msg)
		}
	} else {
		r.endPath(o, EndUnknown, err.Error())
	}
	st.Assume(ok)
	return nil
}

// concretize forks the state over the feasible values of t in [lo,hi]; returns the value
// chosen for this state and pushes the others.
func (r *Run) concretize(st *State, t *smt.Term, lo, hi int64, what string) (int64, error) {
	if t.IsConst() {
		return t.SVal(), nil
	}
	if v, ok := st.concOf(t); ok {
		return v.SVal(), nil
	}
	if hi-lo > 64 {
		return 0, unknownf("concretize %s: range too large", what)
	}
	var feas []int64
	for k := lo; k <= hi; k++ {
		if r.sat(st, smt.Eq(t, smt.BVs(k, int(t.S)))) != smt.Unsat {
			feas = append(feas, k)
		}
	}
	if len(feas) == 0 {
		return 0, pathEnd{EndInfeasible, "concretize: no value"}
	}
	for _, k := range feas[1:] {
		o := st.Fork()
		o.Assume(smt.Eq(t, smt.BVs(k, int(t.S))))
		// the forked state re-executes the same instruction, now seeing (after simplification)
		// a still-symbolic term; record binding so get() can substitute
		o.bindConc(t, k)
		r.work = append(r.work, o)
	}
	st.Assume(smt.Eq(t, smt.BVs(feas[0], int(t.S))))
	st.bindConc(t, feas[0])
	return feas[0], nil
}

func (st *State) bindConc(t *smt.Term, k int64) {
	if st.Ghost == nil {
		st.Ghost = map[string]Value{}
	}
	st.Ghost[fmt.Sprintf("conc:%d", t.ID)] = smt.BVs(k, int(t.S))
}

func (st *State) concOf(t *smt.Term) (*smt.Term, bool) {
	if t.IsConst() {
		return t, true
	}
	if v, ok := st.Ghost[fmt.Sprintf("conc:%d", t.ID)]; ok {
		return v.(*smt.Term), true
	}
	return nil, false
}


// pushCallValue starts fn(args) as the root frame of a thread.
func (r *Run) pushCallValue(st *State, fn Func, args []Value) error {
	if fn.Fn == nil {
		return unknownf("thread entry is not a function")
	}
	return r.pushCall(st, fn.Fn, args, fn.Bind, nil)
}
