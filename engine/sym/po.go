package sym

import (
	"fmt"
	"go/token"
	"go/types"
	"hash/fnv"
	"os"
	"sort"
	"strings"

	"golang.org/x/tools/go/ssa"

	"verif/engine/smt"
)

// Partial-order mode (DESIGN 2.5, appendix A): every model thread is executed in isolation by
// the same SSA interpreter; accesses to shared locations become events; values read are
// fresh variables; states are merged exactly at event sites.

type POAccess struct {
	Loc    *POLoc
	RV     *smt.Term // value read (nil: no read)
	WV     *smt.Term // value written (nil: no write)
	WG     *smt.Term // write guard (relative to the event executing)
	Atomic bool
}

type POEdge struct {
	From  *POEvent // nil: thread root (always enabled) ; for child roots: the spawn event
	Cond  *smt.Term // path condition since the previous event plus join-variable equalities
	PCond *smt.Term // path condition only (the equalities can always be satisfied)
}

type POEvent struct {
	ID     int
	T      *POThread
	Kind   string
	Acc    []*POAccess
	Edges  []POEdge
	Enable *smt.Term // blocking events: may execute only if this holds (over RVs)
	Pos    string
	Label  string    // assert label / log tag
	Cond   *smt.Term // assert condition
	Vals   []*smt.Term
	Child  *POThread
	X      *smt.Term
	C      *smt.Term
	Cut    bool
	Stack  string
	Inv    *smt.Term // must hold whenever the event executes (e.g. a select picks a valid alternative)
	nOut   int
}

type POLoc struct {
	Key      string
	W        int // >0 bit-vector width, 0 Bool, -1 class-coded
	Init     *smt.Term
	Classes  []Value
	Frags    []map[int]*Object // thread-local objects a class value points into (snapshot)
	Used     []bool            // written (or initial) in the current pass
	classIdx map[string]int
	readSeen bool
	IsChan   bool
	// scalar locations: the constants written so far (over all passes); NonConst when some
	// write is not a constant. A read of a location whose writes are all constants is assumed
	// to return the initial value or one of them (sound at the pass fixpoint, see restrict).
	ConstVals map[uint64]bool
	NonConst  bool
	Reads    []*POAccessRef
	Writes   []*POAccessRef
	Name     string
}

type POAccessRef struct {
	Ev *POEvent
	A  *POAccess
}

type POThread struct {
	ID     int
	Name   string
	Key    string
	Root   *POEvent
	Events []*POEvent
	sites  map[string]*siteRec
	Entry  Func
	Args   []Value
	Init   *State // initial state (forked from the spawn point / prologue end)
	Final  bool   // quiescence observer
	Depth  int    // length of the spawn chain leading here
	done   bool
}

type siteRec struct {
	ev *POEvent
	jv []*smt.Term
}

type poResume struct {
	ev     *POEvent
	choice int
	instr  ssa.Instruction
}

type PO struct {
	Eng      *Engine
	R        *Run
	Threads  []*POThread
	byKey    map[string]*POThread
	Locs     map[string]*POLoc
	ProMax   int
	Shared   map[string]bool
	AtomicLocs map[string]bool
	Written  map[string]bool
	Accessed map[string]map[int]bool
	cur      *POThread
	nEv      int
	rerun    bool
	Notes    []string
	Unsupp   []string
	MaxSpawn int
	MaxClasses int
	SpinFns  map[string]bool
	Verbose  bool
}

const classW = 16

func NewPO(e *Engine, r *Run, proMax int) *PO {
	return &PO{Eng: e, R: r, byKey: map[string]*POThread{}, Locs: map[string]*POLoc{}, ProMax: proMax,
		Written: map[string]bool{}, Accessed: map[string]map[int]bool{}, MaxSpawn: 3, MaxClasses: 6, Shared: map[string]bool{}, AtomicLocs: map[string]bool{}}
}

func locKey(p Ptr) string {
	if len(p.Path) == 0 {
		return fmt.Sprintf("o%d", p.ID)
	}
	var sb strings.Builder
	fmt.Fprintf(&sb, "o%d", p.ID)
	for _, i := range p.Path {
		fmt.Fprintf(&sb, ".%d", i)
	}
	return sb.String()
}

// vkey: canonical text of a concrete (non-scalar) value; ok=false if it contains symbolic parts.
func vkey(v Value) (string, bool) {
	switch x := v.(type) {
	case nil:
		return "_", true
	case *smt.Term:
		if x.IsConst() {
			return fmt.Sprintf("c%d:%x", int(x.S), x.C), true
		}
		return "", false
	case Ptr:
		if x.Idx != nil {
			k, ok := vkey(x.Idx)
			return fmt.Sprintf("p%d%v@%s", x.ID, x.Path, k), ok
		}
		return fmt.Sprintf("p%d%v", x.ID, x.Path), true
	case GSlice:
		return fmt.Sprintf("g%d%v:%d:%d:%d", x.ID, x.Path, x.Off, x.Len, x.Cap), true
	case Slice:
		a, o1 := vkey(x.Off)
		b, o2 := vkey(x.Len)
		c, o3 := vkey(x.Cap)
		return fmt.Sprintf("b%d:%s:%s:%s", x.ID, a, b, c), o1 && o2 && o3
	case Str:
		if x.Lit != nil {
			return fmt.Sprintf("s%q", *x.Lit), true
		}
		return "", false
	case Iface:
		if x.T == nil {
			return "inil", true
		}
		k, ok := vkey(x.V)
		return "i<" + x.T.String() + ">" + k, ok
	case Func:
		if x.Fn == nil {
			return "fn<" + x.Builtin + ">", true
		}
		s := "fn<" + x.Fn.String() + ">("
		for _, b := range x.Bind {
			k, ok := vkey(b)
			if !ok {
				return "", false
			}
			s += k + ","
		}
		return s + ")", true
	case Chan:
		return fmt.Sprintf("ch%d", x.ID), true
	case Map:
		return fmt.Sprintf("map%d", x.ID), true
	case Opaque:
		return "opq<" + x.Why + ">", true
	case Struct:
		s := "{"
		for _, f := range x.F {
			k, ok := vkey(f)
			if !ok {
				return "", false
			}
			s += k + ","
		}
		return s + "}", true
	case Array:
		s := "["
		for _, f := range x.E {
			k, ok := vkey(f)
			if !ok {
				return "", false
			}
			s += k + ","
		}
		return s + "]", true
	case Tuple:
		s := "("
		for _, f := range x.E {
			k, ok := vkey(f)
			if !ok {
				return "", false
			}
			s += k + ","
		}
		return s + ")", true
	}
	return "", false
}

func (po *PO) loc(key string, init Value, name string) (*POLoc, error) {
	if l, ok := po.Locs[key]; ok {
		return l, nil
	}
	l := &POLoc{Key: key, classIdx: map[string]int{}, Name: name}
	if t, ok := init.(*smt.Term); ok {
		l.W = int(t.S)
		l.Init = t
	} else {
		l.W = -1
		k, ok := vkey(init)
		if !ok {
			return nil, unknownf("shared location %s holds a symbolic aggregate", key)
		}
		l.Classes = []Value{init}
		l.Frags = []map[int]*Object{nil}
		l.Used = []bool{true}
		l.classIdx[k] = 0
		l.Init = smt.BV(0, classW)
	}
	po.Locs[key] = l
	return l, nil
}

// noteWrite records the value of a scalar write for the value-set restriction.
func (po *PO) noteWrite(l *POLoc, wv *smt.Term) {
	if l.W == -1 || wv == nil || l.NonConst {
		return
	}
	if !wv.IsConst() {
		l.NonConst = true
		po.rerun = true
		return
	}
	if l.ConstVals == nil {
		l.ConstVals = map[uint64]bool{}
	}
	if !l.ConstVals[wv.C] {
		l.ConstVals[wv.C] = true
		po.rerun = true
	}
}

// restrict assumes that a fresh read value of a scalar location with constant-only writes
// is the initial value or one of the constants written in this or an earlier pass. The
// passes are repeated until no location gains a value, so at the fixpoint the set is closed:
// along any real execution every read returns the initial value or an earlier write, which
// by induction is in the set. Before the fixpoint the assumption only prunes exploration
// (the formulas of such a pass are never solved).
func (po *PO) restrict(st *State, l *POLoc, rv *smt.Term) {
	if l.W <= 0 || l.NonConst || l.Init == nil || !l.Init.IsConst() || len(l.ConstVals) > 8 {
		return
	}
	alts := []*smt.Term{smt.Eq(rv, l.Init)}
	var ks []uint64
	for k := range l.ConstVals {
		ks = append(ks, k)
	}
	sort.Slice(ks, func(i, j int) bool { return ks[i] < ks[j] })
	for _, k := range ks {
		alts = append(alts, smt.Eq(rv, smt.BV(k, l.W)))
	}
	st.Assume(smt.Or(alts...))
}

func (l *POLoc) sort() smt.Sort {
	if l.W == -1 {
		return smt.Sort(classW)
	}
	return smt.Sort(l.W)
}

// class returns the class index of a concrete value at this location, registering it. The
// key is content-based (thread-local objects are named by visiting order and their contents
// included), so it is stable across passes; the objects themselves travel with the class.
func (po *PO) class(l *POLoc, st *State, v Value, prefix string) (*smt.Term, error) {
	k, ok := st.valueKey(po.ProMax, v)
	if !ok {
		return nil, unknownf("symbolic aggregate written to shared location %s", l.Key)
	}
	k = prefix + k
	if i, ok := l.classIdx[k]; ok {
		l.Used[i] = true
		return smt.BV(uint64(i), classW), nil
	}
	i := len(l.Classes)
	if i >= po.MaxClasses {
		return nil, pathEnd{EndBound, fmt.Sprintf("more than %d distinct values at shared location %s", po.MaxClasses, l.Name)}
	}
	if prefix != "" {
		l.Classes = append(l.Classes, chanFull{v})
	} else {
		l.Classes = append(l.Classes, v)
	}
	l.Frags = append(l.Frags, po.fragment(st, v))
	l.Used = append(l.Used, true)
	l.classIdx[k] = i
	if l.readSeen {
		po.rerun = true
	}
	return smt.BV(uint64(i), classW), nil
}

// fragment collects the thread-local objects reachable from v (deep snapshot).
func (po *PO) fragment(st *State, v Value) map[int]*Object {
	out := map[int]*Object{}
	var visit func(v Value)
	obj := func(id int) {
		if id == 0 || id <= po.ProMax {
			return
		}
		if _, ok := out[id]; ok {
			return
		}
		o := st.Heap.Get(id)
		if o == nil {
			return
		}
		out[id] = o
		if o.Kind == OVal {
			visit(o.V)
		}
		for _, b := range o.Buf {
			visit(b)
		}
	}
	visit = func(v Value) {
		switch x := v.(type) {
		case Ptr:
			obj(x.ID)
		case Slice:
			obj(x.ID)
		case GSlice:
			obj(x.ID)
		case Str:
			obj(x.ID)
		case Chan:
			obj(x.ID)
		case Iface:
			visit(x.V)
		case Func:
			for _, b := range x.Bind {
				visit(b)
			}
		case Struct:
			for _, f := range x.F {
				visit(f)
			}
		case Array:
			for _, f := range x.E {
				visit(f)
			}
		case Tuple:
			for _, f := range x.E {
				visit(f)
			}
		case chanFull:
			visit(x.v)
		}
	}
	visit(v)
	if len(out) == 0 {
		return nil
	}
	return out
}

func (po *PO) importFrag(st *State, l *POLoc, k int) {
	if k >= len(l.Frags) {
		return
	}
	for id, o := range l.Frags[k] {
		if st.Heap.Get(id) == nil {
			st.Heap.Put(o)
		}
	}
}

func (po *PO) isPrologue(id int) bool { return id <= po.ProMax }

// sharedPtr: is the location a shared one for this pass? Locations touched by sync/atomic,
// channel or mutex operations are shared by construction; plain locations are shared once a
// previous pass saw them written by one thread and accessed by another.
func (po *PO) sharedPtr(st *State, p Ptr) bool {
	if p.ID == 0 || !po.isPrologue(p.ID) {
		return false
	}
	o := st.Heap.Get(p.ID)
	if o == nil || o.Kind != OVal {
		return false
	}
	return po.Shared[locKey(p)]
}

func (po *PO) sharedAtomic(st *State, p Ptr) bool {
	if p.ID == 0 || !po.isPrologue(p.ID) {
		return false
	}
	o := st.Heap.Get(p.ID)
	if o == nil || o.Kind != OVal {
		return false
	}
	k := locKey(p)
	if !po.Shared[k] {
		po.Shared[k] = true
		po.AtomicLocs[k] = true
	}
	return true
}

func (po *PO) noteAccess(key string, write bool) {
	if write {
		po.Written[key] = true
	}
	m := po.Accessed[key]
	if m == nil {
		m = map[int]bool{}
		po.Accessed[key] = m
	}
	m[po.cur.ID] = true
}

func (po *PO) newEvent(st *State, kind string, pos token.Pos) *POEvent {
	po.nEv++
	ev := &POEvent{ID: po.nEv, T: po.cur, Kind: kind, Pos: st.pos(pos)}
	if ev.Pos == "" {
		ev.Pos = st.curPos()
	}
	ev.X = smt.Var(fmt.Sprintf("x!%d", ev.ID), smt.Bool)
	ev.C = smt.Var(fmt.Sprintf("c!%d", ev.ID), smt.Int)
	po.cur.Events = append(po.cur.Events, ev)
	return ev
}

type mergedEnd struct{}

// atSite is called before an event-creating instruction executes. It merges the state into an
// existing event of the same key or creates a new event and rebases the state on join
// variables. Returns (event, merged).
func (po *PO) atSite(st *State, pos token.Pos) (*POEvent, bool) {
	key, slots := st.stateKey(po.ProMax)
	// unrolling is counted per identical state key along the path (a revisit of the same key is
	// one more iteration of whatever loop brought us back); this keeps the DAG acyclic
	h := fnv.New64a()
	h.Write([]byte(key))
	hk := h.Sum64()
	if st.SiteVisits == nil {
		st.SiteVisits = map[uint64]int{}
	}
	st.SiteVisits[hk]++
	vis := st.SiteVisits[hk]
	if vis > po.R.LoopBound {
		cut := po.newEvent(st, "cut", pos)
		cut.Cut = true
		cut.Stack = fmt.Sprintf("state revisited more than %d times at %s", po.R.LoopBound, st.pos(pos))
		c := smt.And(st.PC...)
		cut.Edges = append(cut.Edges, POEdge{From: st.POLast, Cond: c, PCond: c})
		return cut, true
	}
	key = fmt.Sprintf("%s#v%d", key, vis)
	th := po.cur
	pc := smt.And(st.PC...)
	if rec, ok := th.sites[key]; ok && len(rec.jv) == len(slots) {
		conds := []*smt.Term{pc}
		for i, s := range slots {
			conds = append(conds, smt.Eq(rec.jv[i], s))
		}
		rec.ev.Edges = append(rec.ev.Edges, POEdge{From: st.POLast, Cond: smt.And(conds...), PCond: pc})
		return rec.ev, true
	}
	ev := po.newEvent(st, "site", pos)
	ev.Stack = st.stack()
	if f := os.Getenv("VERIF_POKEYDUMP"); f != "" && th.ID >= 5 {
		if fh, err := os.OpenFile(f, os.O_APPEND|os.O_CREATE|os.O_WRONLY, 0o644); err == nil {
			fmt.Fprintf(fh, "%s\n", key)
			fh.Close()
		}
	}
	jv := make([]*smt.Term, len(slots))
	conds := []*smt.Term{pc}
	for i, s := range slots {
		jv[i] = smt.Var(po.Eng.Fresh("jv"), s.S)
		conds = append(conds, smt.Eq(jv[i], s))
	}
	ev.Edges = append(ev.Edges, POEdge{From: st.POLast, Cond: smt.And(conds...), PCond: pc})
	st.rebase(po.ProMax, jv)
	st.PC = nil
	st.Known = map[int64]bool{}
	st.POLast = ev
	th.sites[key] = &siteRec{ev: ev, jv: jv}
	return ev, false
}

// ---------------------------------------------------------------- classification of event sites

var poIntrinsicSites = map[string]bool{
	"verifAssert": true, "verifLog": true, "verifSpawn": true, "verifReach": true,
}

func (po *PO) isSite(r *Run, st *State, in ssa.Instruction) bool {
	switch x := in.(type) {
	case *ssa.UnOp:
		if x.Op == token.MUL {
			if p, ok := r.get(st, x.X).(Ptr); ok {
				return po.sharedPtr(st, p) && !aggregate(x.Type())
			}
			return false
		}
		if x.Op == token.ARROW {
			return po.sharedChan(r.get(st, x.X))
		}
	case *ssa.Store:
		if p, ok := r.get(st, x.Addr).(Ptr); ok {
			return po.sharedPtr(st, p) && !aggregate(x.Val.Type())
		}
	case *ssa.Send:
		return po.sharedChan(r.get(st, x.Chan))
	case *ssa.Select:
		for _, s := range x.States {
			if po.sharedChan(r.get(st, s.Chan)) {
				return true
			}
		}
	case *ssa.Go:
		return true
	case *ssa.Call:
		c := x.Common()
		if c.IsInvoke() {
			return false
		}
		if b, ok := c.Value.(*ssa.Builtin); ok {
			if (b.Name() == "close" || b.Name() == "len") && len(c.Args) == 1 {
				return po.sharedChan(r.get(st, c.Args[0]))
			}
			if b.Name() == "append" || b.Name() == "copy" {
				for _, a := range c.Args {
					if g, ok := r.get(st, a).(GSlice); ok && g.ID != 0 && po.isPrologue(g.ID) {
						return true
					}
				}
			}
			return false
		}
		fn, ok := c.Value.(*ssa.Function)
		if !ok {
			return false
		}
		name := fn.String()
		if name == "(*sync.Mutex).Lock" || name == "(*sync.Mutex).Unlock" {
			if p, ok := r.get(st, c.Args[0]).(Ptr); ok {
				return po.sharedAtomic(st, p.sub(0))
			}
			return false
		}
		if strings.HasPrefix(name, "sync/atomic.") || strings.HasPrefix(name, "(*sync/atomic.Value).") {
			if len(c.Args) > 0 {
				if p, ok := r.get(st, c.Args[0]).(Ptr); ok {
					if strings.HasPrefix(name, "(*sync/atomic.Value).") {
						p = p.sub(0)
					}
					return po.sharedAtomic(st, p)
				}
			}
			return false
		}
		if poIntrinsicSites[fn.Name()] {
			return true
		}
	}
	return false
}

func aggregate(t types.Type) bool {
	switch t.Underlying().(type) {
	case *types.Struct, *types.Array:
		return true
	}
	return false
}

func (po *PO) sharedChan(v Value) bool {
	c, ok := v.(Chan)
	return ok && c.ID != 0 && po.isPrologue(c.ID)
}

// ---------------------------------------------------------------- hook: memory

func (po *PO) access(st *State, p Ptr, name string) (*POLoc, error) {
	o := st.Heap.Get(p.ID)
	init, err := getPath(o.V, p.Path)
	if err != nil {
		return nil, unknownf("shared access: %v", err)
	}
	return po.loc(locKey(p), init, name)
}

// readValue turns the value variable of a read into an interpreter value; class-coded
// locations fork over the candidate classes.
func (po *PO) readValue(st *State, ev *POEvent, l *POLoc, rv *smt.Term) (Value, error) {
	if l.W != -1 {
		return rv, nil
	}
	l.readSeen = true
	choice := 0
	if st.Resume != nil && st.Resume.ev == ev {
		choice = st.Resume.choice
		st.Resume = nil
	} else {
		// fork over the other classes; they re-execute this instruction with Resume set
		f := st.top()
		for k := 1; k < len(l.Classes); k++ {
			o := st.Fork()
			o.Resume = &poResume{ev: ev, choice: k, instr: f.Block.Instrs[f.PC]}
			po.R.work = append(po.R.work, o)
		}
	}
	st.Assume(smt.Eq(rv, smt.BV(uint64(choice), classW)))
	po.importFrag(st, l, choice)
	return l.Classes[choice], nil
}

func (po *PO) evFor(st *State) *POEvent {
	if st.Resume != nil {
		return st.Resume.ev
	}
	return st.POLast
}

// find or create the access record for loc on the event (re-execution after a class fork
// must reuse the same record)
func (ev *POEvent) acc(l *POLoc) (*POAccess, bool) {
	for _, a := range ev.Acc {
		if a.Loc == l {
			return a, true
		}
	}
	a := &POAccess{Loc: l}
	ev.Acc = append(ev.Acc, a)
	return a, false
}

func (po *PO) Load(st *State, p Ptr, t types.Type, atomicOp bool, pos token.Pos) (Value, bool, error) {
	if !po.sharedPtr(st, p) {
		if p.ID != 0 && po.isPrologue(p.ID) && (t == nil || !aggregate(t)) {
			if o := st.Heap.Get(p.ID); o != nil && o.Kind == OVal {
				po.noteAccess(locKey(p), false)
			}
		}
		return nil, false, nil
	}
	if t != nil && aggregate(t) {
		return nil, false, nil
	}
	l, err := po.access(st, p, fieldNameOf(st, p))
	if err != nil {
		return nil, true, err
	}
	po.noteAccess(l.Key, false)
	ev := po.evFor(st)
	ev.Kind = "R"
	a, had := ev.acc(l)
	if !had {
		a.RV = smt.Var(fmt.Sprintf("rv!%d_%d", ev.ID, len(ev.Acc)), l.sort())
		a.Atomic = atomicOp
		l.Reads = append(l.Reads, &POAccessRef{ev, a})
	}
	po.restrict(st, l, a.RV)
	v, err := po.readValue(st, ev, l, a.RV)
	return v, true, err
}

func (po *PO) Store(st *State, p Ptr, v Value, atomicOp bool, pos token.Pos) (bool, error) {
	if !po.sharedPtr(st, p) {
		if po.isPrologue(p.ID) {
			if st.Dirty == nil {
				st.Dirty = map[int]bool{}
			}
			st.Dirty[p.ID] = true
			po.noteAccess(locKey(p), true)
		}
		return false, nil
	}
	if _, isAgg := v.(Struct); isAgg {
		return false, unknownf("aggregate store to shared object at %s", st.pos(pos))
	}
	l, err := po.access(st, p, fieldNameOf(st, p))
	if err != nil {
		return true, err
	}
	po.noteAccess(l.Key, true)
	ev := po.evFor(st)
	ev.Kind = "W"
	a, had := ev.acc(l)
	if !had {
		a.Atomic = atomicOp
		a.WG = smt.True
		if l.W == -1 {
			a.WV, err = po.class(l, st, v, "")
			if err != nil {
				return true, err
			}
		} else {
			t, ok := v.(*smt.Term)
			if !ok {
				return true, unknownf("non-scalar store to scalar location")
			}
			a.WV = t
			po.noteWrite(l, t)
		}
		l.Writes = append(l.Writes, &POAccessRef{ev, a})
	}
	return true, nil
}

func fieldNameOf(st *State, p Ptr) string {
	o := st.Heap.Get(p.ID)
	if o == nil || o.T == nil {
		return locKey(p)
	}
	t := o.T
	name := ""
	if n, ok := t.(*types.Named); ok {
		name = n.Obj().Name()
	}
	for _, i := range p.Path {
		switch u := t.Underlying().(type) {
		case *types.Struct:
			if i < u.NumFields() {
				name += "." + u.Field(i).Name()
				t = u.Field(i).Type()
				continue
			}
		case *types.Array:
			name += fmt.Sprintf("[%d]", i)
			t = u.Elem()
			continue
		}
		break
	}
	return fmt.Sprintf("%s#%d", name, p.ID)
}

func (po *PO) AtomicLoad(st *State, p Ptr, w int, pos token.Pos) (Value, bool, error) {
	v, ok, err := po.Load(st, p, nil, true, pos)
	return v, ok, err
}

func (po *PO) AtomicStore(st *State, p Ptr, v Value, pos token.Pos) (bool, error) {
	return po.Store(st, p, v, true, pos)
}

func (po *PO) AtomicRMW(st *State, p Ptr, w int, f func(old *smt.Term) (*smt.Term, *smt.Term), pos token.Pos) (*smt.Term, bool, error) {
	if !po.sharedPtr(st, p) {
		if po.isPrologue(p.ID) {
			if st.Dirty == nil {
				st.Dirty = map[int]bool{}
			}
			st.Dirty[p.ID] = true
			po.noteAccess(locKey(p), true)
		}
		return nil, false, nil
	}
	l, err := po.access(st, p, fieldNameOf(st, p))
	if err != nil {
		return nil, true, err
	}
	if l.W == -1 {
		return nil, true, unknownf("atomic rmw on class-coded location")
	}
	po.noteAccess(l.Key, true)
	ev := po.evFor(st)
	ev.Kind = "RMW"
	a, had := ev.acc(l)
	if !had {
		a.RV = smt.Var(fmt.Sprintf("rv!%d_%d", ev.ID, len(ev.Acc)), l.sort())
		a.Atomic = true
		nv, wg := f(a.RV)
		a.WV, a.WG = nv, wg
		po.noteWrite(l, nv)
		l.Reads = append(l.Reads, &POAccessRef{ev, a})
		l.Writes = append(l.Writes, &POAccessRef{ev, a})
	}
	po.restrict(st, l, a.RV)
	return a.RV, true, nil
}

func (po *PO) ValueLoad(st *State, p Ptr, pos token.Pos) (Value, bool, error) {
	return po.Load(st, p, nil, true, pos)
}

func (po *PO) ValueStore(st *State, p Ptr, v Value, pos token.Pos) (bool, error) {
	return po.Store(st, p, v, true, pos)
}

// ---------------------------------------------------------------- hook: channels
//
// A prologue channel of capacity 1 is one class-coded location: class 0 = empty, class k =
// holding value k-th registered; a closed channel is the class "closed".

type chanEmpty struct{}
type chanClosed struct{}
type chanFull struct{ v Value }

func (po *PO) chanLoc(st *State, c Chan) (*POLoc, error) {
	key := fmt.Sprintf("chan%d", c.ID)
	if l, ok := po.Locs[key]; ok {
		return l, nil
	}
	o := st.Heap.Get(c.ID)
	if o.ChanCap != 1 {
		return nil, unknownf("shared channel with capacity %d (only capacity 1 is modelled)", o.ChanCap)
	}
	l := &POLoc{Key: key, classIdx: map[string]int{}, W: -1, IsChan: true, Name: "chan@" + o.Site}
	l.Classes = []Value{chanEmpty{}, chanClosed{}}
	l.Frags = []map[int]*Object{nil, nil}
	l.Used = []bool{true, true}
	l.classIdx["empty"] = 0
	l.classIdx["closed"] = 1
	l.Init = smt.BV(0, classW)
	if len(o.Buf) > 0 {
		t, err := po.chanClass(l, st, o.Buf[0])
		if err != nil {
			return nil, err
		}
		l.Init = t
	}
	po.Locs[key] = l
	return l, nil
}

func (po *PO) chanClass(l *POLoc, st *State, v Value) (*smt.Term, error) {
	return po.class(l, st, v, "full:")
}

var (
	clsEmpty  = smt.BV(0, classW)
	clsClosed = smt.BV(1, classW)
)

func (po *PO) Send(st *State, chv Value, v Value, pos token.Pos) (bool, error) {
	c, ok := chv.(Chan)
	if !ok || !po.sharedChan(c) {
		return false, nil
	}
	l, err := po.chanLoc(st, c)
	if err != nil {
		return true, err
	}
	po.noteAccess(l.Key, true)
	ev := po.evFor(st)
	ev.Kind = "send"
	a, had := ev.acc(l)
	if !had {
		a.RV = smt.Var(fmt.Sprintf("rv!%d_%d", ev.ID, len(ev.Acc)), l.sort())
		a.Atomic = true
		wv, err := po.chanClass(l, st, v)
		if err != nil {
			return true, err
		}
		a.WV, a.WG = wv, smt.True
		ev.Enable = smt.Eq(a.RV, clsEmpty) // blocks while full (send on closed: not modelled)
		l.Reads = append(l.Reads, &POAccessRef{ev, a})
		l.Writes = append(l.Writes, &POAccessRef{ev, a})
	}
	return true, nil
}

func (po *PO) Recv(st *State, chv Value, t types.Type, commaOk bool, pos token.Pos) (Value, Value, bool, error) {
	c, ok := chv.(Chan)
	if !ok || !po.sharedChan(c) {
		return nil, nil, false, nil
	}
	l, err := po.chanLoc(st, c)
	if err != nil {
		return nil, nil, true, err
	}
	po.noteAccess(l.Key, true)
	ev := po.evFor(st)
	ev.Kind = "recv"
	a, had := ev.acc(l)
	if !had {
		a.RV = smt.Var(fmt.Sprintf("rv!%d_%d", ev.ID, len(ev.Acc)), l.sort())
		a.Atomic = true
		a.WV = clsEmpty
		a.WG = smt.Ne(a.RV, clsClosed)
		ev.Enable = smt.Ne(a.RV, clsEmpty)
		l.Reads = append(l.Reads, &POAccessRef{ev, a})
		l.Writes = append(l.Writes, &POAccessRef{ev, a})
	}
	l.readSeen = true
	// fork over non-empty classes
	choice := 1
	if st.Resume != nil && st.Resume.ev == ev {
		choice = st.Resume.choice
		st.Resume = nil
	} else {
		f := st.top()
		for k := 2; k < len(l.Classes); k++ {
			o := st.Fork()
			o.Resume = &poResume{ev: ev, choice: k, instr: f.Block.Instrs[f.PC]}
			po.R.work = append(po.R.work, o)
		}
	}
	st.Assume(smt.Eq(a.RV, smt.BV(uint64(choice), classW)))
	po.importFrag(st, l, choice)
	et := t
	var val Value
	okv := smt.True
	switch cl := l.Classes[choice].(type) {
	case chanClosed:
		val = Zero(et)
		okv = smt.False
	case chanFull:
		val = cl.v
	}
	return val, okv, true, nil
}

func (po *PO) CloseChan(st *State, chv Value, pos token.Pos) (bool, error) {
	c, ok := chv.(Chan)
	if !ok || !po.sharedChan(c) {
		return false, nil
	}
	l, err := po.chanLoc(st, c)
	if err != nil {
		return true, err
	}
	po.noteAccess(l.Key, true)
	ev := po.evFor(st)
	ev.Kind = "close"
	a, had := ev.acc(l)
	if !had {
		a.Atomic = true
		a.WV, a.WG = clsClosed, smt.True
		l.Writes = append(l.Writes, &POAccessRef{ev, a})
	}
	return true, nil
}

func (po *PO) ChanLen(st *State, c Chan, pos token.Pos) (Value, bool) {
	if !po.sharedChan(c) {
		return nil, false
	}
	l, err := po.chanLoc(st, c)
	if err != nil {
		return nil, false
	}
	po.noteAccess(l.Key, false)
	ev := po.evFor(st)
	ev.Kind = "chanlen"
	a, had := ev.acc(l)
	if !had {
		a.RV = smt.Var(fmt.Sprintf("rv!%d_%d", ev.ID, len(ev.Acc)), l.sort())
		a.Atomic = true
		l.Reads = append(l.Reads, &POAccessRef{ev, a})
	}
	full := smt.And(smt.Ne(a.RV, clsEmpty), smt.Ne(a.RV, clsClosed))
	return smt.Ite(full, smt.BV(1, 64), smt.BV(0, 64)), true
}

// Select: one event over all the case channels. The event is enabled if some case is ready
// (or the select has a default); the chosen case is a fork of the path.
func (po *PO) Select(st *State, r *Run, x *ssa.Select) (bool, error) {
	shared := false
	for _, s := range x.States {
		if po.sharedChan(r.get(st, s.Chan)) {
			shared = true
		}
	}
	if !shared {
		return false, nil
	}
	ev := po.evFor(st)
	ev.Kind = "select"
	type caseInfo struct {
		l   *POLoc
		a   *POAccess
		dir types.ChanDir
	}
	var cs []caseInfo
	for _, s := range x.States {
		c, ok := r.get(st, s.Chan).(Chan)
		if !ok || !po.sharedChan(c) {
			return true, unknownf("select mixes shared and local channels")
		}
		l, err := po.chanLoc(st, c)
		if err != nil {
			return true, err
		}
		po.noteAccess(l.Key, true)
		a, had := ev.acc(l)
		if !had {
			a.RV = smt.Var(fmt.Sprintf("rv!%d_%d", ev.ID, len(ev.Acc)), l.sort())
			a.Atomic = true
			l.Reads = append(l.Reads, &POAccessRef{ev, a})
			l.Writes = append(l.Writes, &POAccessRef{ev, a})
			a.WG = smt.False
			a.WV = clsEmpty
		}
		l.readSeen = true
		cs = append(cs, caseInfo{l, a, s.Dir})
	}
	// choice variable: which case fires (-1 default)
	chv := smt.Var(fmt.Sprintf("sel!%d", ev.ID), smt.Sort(classW))
	ready := make([]*smt.Term, len(cs))
	for i, ci := range cs {
		if ci.dir == types.SendOnly {
			ready[i] = smt.Eq(ci.a.RV, clsEmpty)
		} else {
			ready[i] = smt.Ne(ci.a.RV, clsEmpty)
		}
	}
	// the alternatives of this path: (case index, class)
	type alt struct{ ci, class int }
	var alts []alt
	for i, ci := range cs {
		if ci.dir == types.SendOnly {
			alts = append(alts, alt{i, 0})
		} else {
			for k := 1; k < len(ci.l.Classes); k++ {
				alts = append(alts, alt{i, k})
			}
		}
	}
	if !x.Blocking {
		alts = append(alts, alt{-1, 0})
	}
	if st.Resume == nil || st.Resume.ev != ev {
		// first execution: set up write guards and enabling, fork alternatives
		anyReady := smt.False
		for i, ci := range cs {
			anyReady = smt.Or(anyReady, ready[i])
			sel := smt.Eq(chv, smt.BV(uint64(i), classW))
			if ci.dir == types.SendOnly {
				wv, err := po.chanClass(ci.l, st, r.get(st, x.States[i].Send))
				if err != nil {
					return true, err
				}
				ci.a.WV = wv
				ci.a.WG = sel
			} else {
				ci.a.WV = clsEmpty
				ci.a.WG = smt.And(sel, smt.Ne(ci.a.RV, clsClosed))
			}
		}
		if x.Blocking {
			ev.Enable = anyReady
		}
		// the choice variable names a ready case (or the default when nothing is ready)
		var valid []*smt.Term
		for i := range cs {
			valid = append(valid, smt.And(smt.Eq(chv, smt.BV(uint64(i), classW)), ready[i]))
		}
		if !x.Blocking {
			none := smt.True
			for i := range cs {
				none = smt.And(none, smt.Not(ready[i]))
			}
			valid = append(valid, smt.And(smt.Eq(chv, smt.BV(uint64(0xffff), classW)), none))
		}
		ev.Inv = smt.Or(valid...)
		f := st.top()
		for k := 1; k < len(alts); k++ {
			o := st.Fork()
			o.Resume = &poResume{ev: ev, choice: k, instr: f.Block.Instrs[f.PC]}
			po.R.work = append(po.R.work, o)
		}
	}
	choice := 0
	if st.Resume != nil && st.Resume.ev == ev {
		choice = st.Resume.choice
		st.Resume = nil
	}
	if len(alts) == 0 {
		return true, pathEnd{EndBlocked, "select with no alternative"}
	}
	al := alts[choice]
	// result tuple
	nrecv := 0
	for _, s := range x.States {
		if s.Dir == types.RecvOnly {
			nrecv++
		}
	}
	res := make([]Value, 2+nrecv)
	res[0] = smt.BVs(int64(al.ci), 64)
	res[1] = smt.False
	k := 0
	for i, s := range x.States {
		if s.Dir != types.RecvOnly {
			continue
		}
		et := s.Chan.Type().Underlying().(*types.Chan).Elem()
		res[2+k] = Zero(et)
		if i == al.ci {
			switch cl := cs[i].l.Classes[al.class].(type) {
			case chanFull:
				res[2+k] = cl.v
				res[1] = smt.True
			}
		}
		k++
	}
	if al.ci >= 0 {
		st.Assume(smt.Eq(chv, smt.BV(uint64(al.ci), classW)))
		st.Assume(ready[al.ci])
		if cs[al.ci].dir != types.SendOnly {
			st.Assume(smt.Eq(cs[al.ci].a.RV, smt.BV(uint64(al.class), classW)))
			po.importFrag(st, cs[al.ci].l, al.class)
		}
	} else {
		// default: no case ready
		st.Assume(smt.Eq(chv, smt.BV(uint64(0xffff), classW)))
		for i := range cs {
			st.Assume(smt.Not(ready[i]))
		}
	}
	r.set(st, x, Tuple{E: res})
	st.top().PC++
	return true, nil
}

// ---------------------------------------------------------------- threads

func (po *PO) newThread(name, key string, entry Func, args []Value, init *State) *POThread {
	th := &POThread{ID: len(po.Threads), Name: name, Key: key, Entry: entry, Args: args, Init: init, sites: map[string]*siteRec{}}
	po.nEv++
	th.Root = &POEvent{ID: po.nEv, T: th, Kind: "root"}
	th.Root.X = smt.Var(fmt.Sprintf("x!%d", th.Root.ID), smt.Bool)
	th.Root.C = smt.Var(fmt.Sprintf("c!%d", th.Root.ID), smt.Int)
	th.Events = append(th.Events, th.Root)
	po.Threads = append(po.Threads, th)
	if key != "" {
		po.byKey[key] = th
	}
	return th
}

// spawn handles `go f(args)` / verifSpawn(f) inside a thread.
func (po *PO) spawn(st *State, fn Func, args []Value, pos token.Pos) error {
	k, ok := st.valueKey(po.ProMax, Tuple{E: append([]Value{fn}, args...)})
	if !ok {
		return unknownf("spawn with symbolic arguments at %s", st.pos(pos))
	}
	if st.Spawned == nil {
		st.Spawned = map[string]int{}
	}
	idx := st.Spawned[k]
	st.Spawned[k] = idx + 1
	if idx >= po.MaxSpawn {
		return pathEnd{EndBound, fmt.Sprintf("more than %d spawns of the same task on one path", po.MaxSpawn)}
	}
	key := fmt.Sprintf("%s|by%d|#%d", k, po.cur.ID, idx)
	if po.cur.Depth+1 > po.MaxSpawn {
		return pathEnd{EndBound, fmt.Sprintf("spawn chain deeper than %d", po.MaxSpawn)}
	}
	if os.Getenv("VERIF_POKEYS") != "" {
		fmt.Fprintf(os.Stderr, "SPAWNKEY %s\n", key)
	}
	ev := po.evFor(st)
	ev.Kind = "spawn"
	child, ok := po.byKey[key]
	if !ok {
		init := st.Fork()
		init.Frames = nil
		init.PC = nil
		init.Known = map[int64]bool{}
		init.Spawned = nil
		init.Dirty = nil
		init.Resume = nil
		name := "task"
		if fn.Fn != nil {
			name = fn.Fn.Name()
		}
		child = po.newThread(fmt.Sprintf("%s#%d(by %s)", name, idx, po.cur.Name), key, fn, args, init)
		child.Depth = po.cur.Depth + 1
	}
	ev.Child = child
	child.Root.Edges = append(child.Root.Edges, POEdge{From: ev, Cond: smt.True, PCond: smt.True})
	return nil
}

// Explore runs every registered thread (and the threads they spawn) to completion.
func (po *PO) Explore() {
	for i := 0; i < len(po.Threads); i++ {
		th := po.Threads[i]
		if th.done {
			continue
		}
		th.done = true
		po.cur = th
		st := th.Init.Fork()
		st.Thread = th.ID + 1
		st.POLast = th.Root
		st.Hook = po
		r := po.R
		r.Hook = po
		r.work = nil
		r.OnEnd = func(e End) { po.onEnd(th, e) }
		if err := r.pushCallValue(st, th.Entry, th.Args); err != nil {
			po.Notes = append(po.Notes, fmt.Sprintf("thread %s: cannot start: %v", th.Name, err))
			continue
		}
		r.work = append(r.work, st)
		np := 0
		for len(r.work) > 0 {
			s := r.work[len(r.work)-1]
			r.work = r.work[:len(r.work)-1]
			s.Hook = po
			r.runPath(s)
			np++
			if po.Verbose && np%500 == 0 {
				fmt.Fprintf(os.Stderr, "      .. thread %d %s: paths=%d events=%d pending=%d ends=%v\n", th.ID, th.Name, np, len(th.Events), len(r.work), r.Ends)
			}
		}
		if po.Verbose {
			fmt.Fprintf(os.Stderr, "    thread %d %s: paths=%d events=%d ends=%v\n", th.ID, th.Name, np, len(th.Events), r.Ends)
		}
	}
}

func (po *PO) onEnd(th *POThread, e End) {
	st := e.St
	switch e.Kind {
	case EndMerged:
		return
	case EndReturn:
		ev := po.newEvent(st, "end", token.NoPos)
		ev.Edges = append(ev.Edges, POEdge{From: st.POLast, Cond: smt.And(st.PC...), PCond: smt.And(st.PC...)})
		return
	case EndPanic:
		// uncaught panic of a thread: an assertion event unless the harness allowed it
		ev := po.newEvent(st, "assert", token.NoPos)
		ev.Label = "panic"
		if st.PanicOK {
			ev.Kind = "end-panic-ok"
			ev.Cond = smt.True
		} else {
			ev.Cond = smt.False
		}
		msg := ""
		if st.Panic != nil {
			msg = st.Panic.Msg + " at " + st.Panic.Pos
		}
		ev.Stack = msg
		ev.Edges = append(ev.Edges, POEdge{From: st.POLast, Cond: smt.And(st.PC...), PCond: smt.And(st.PC...)})
	case EndInfeasible:
		return
	case EndBound:
		ev := po.newEvent(st, "cut", token.NoPos)
		ev.Cut = true
		ev.Stack = e.Msg
		ev.Edges = append(ev.Edges, POEdge{From: st.POLast, Cond: smt.And(st.PC...), PCond: smt.And(st.PC...)})
	default:
		ev := po.newEvent(st, "unknown", token.NoPos)
		ev.Cut = true
		ev.Stack = string(e.Kind) + ": " + e.Msg
		ev.Edges = append(ev.Edges, POEdge{From: st.POLast, Cond: smt.And(st.PC...), PCond: smt.And(st.PC...)})
		po.Unsupp = append(po.Unsupp, th.Name+": "+string(e.Kind)+": "+e.Msg)
	}
}

// Reset forgets events (keeps locations' classes) for another pass.
func (po *PO) Reset(roots []*POThread) {
	for _, l := range po.Locs {
		l.Reads, l.Writes = nil, nil
		l.readSeen = false
		for i := range l.Used {
			l.Used[i] = i == 0 || (l.IsChan && i == 1)
		}
	}
	po.Threads = nil
	po.byKey = map[string]*POThread{}
	po.nEv = 0
	po.rerun = false
	po.Unsupp = nil
	po.Written = map[string]bool{}
	po.Accessed = map[string]map[int]bool{}
	for _, t := range roots {
		nt := po.newThread(t.Name, "", t.Entry, t.Args, t.Init)
		nt.Final = t.Final
	}
}

func (po *PO) Stats() (threads, events, edges int) {
	for _, t := range po.Threads {
		threads++
		events += len(t.Events)
		for _, e := range t.Events {
			edges += len(e.Edges)
		}
	}
	return
}

func sortedLocs(m map[string]*POLoc) []*POLoc {
	var ks []string
	for k := range m {
		ks = append(ks, k)
	}
	sort.Strings(ks)
	var out []*POLoc
	for _, k := range ks {
		out = append(out, m[k])
	}
	return out
}


func (po *PO) Rerun() bool { return po.rerun }

// Dump renders the event DAGs (debugging aid).
func (po *PO) Dump() string {
	var sb strings.Builder
	for _, t := range po.Threads {
		fmt.Fprintf(&sb, "thread %d %s (final=%v) events=%d\n", t.ID, t.Name, t.Final, len(t.Events))
		for _, e := range t.Events {
			var ps []string
			for _, ed := range e.Edges {
				if ed.From == nil {
					ps = append(ps, "root")
				} else {
					ps = append(ps, fmt.Sprintf("e%d", ed.From.ID))
				}
			}
			desc := e.Kind
			for _, a := range e.Acc {
				desc += " " + a.Loc.Name
				if a.WV != nil {
					w := a.WV.String()
					if len(w) > 30 {
						w = w[:30]
					}
					desc += ":=" + w
				}
			}
			if e.Label != "" {
				desc += " [" + e.Label + "]"
			}
			fmt.Fprintf(&sb, "  e%-4d %-22s <- %-18s %s\n", e.ID, e.Pos, strings.Join(ps, ","), desc)
		}
	}
	return sb.String()
}


// AwaitRMW: blocking read-modify-write (mutex acquisition): enabled only while en(old) holds.
func (po *PO) AwaitRMW(st *State, p Ptr, en func(old *smt.Term) *smt.Term, f func(old *smt.Term) (*smt.Term, *smt.Term), pos token.Pos) (bool, error) {
	_, handled, err := po.AtomicRMW(st, p, 32, f, pos)
	if !handled || err != nil {
		return handled, err
	}
	ev := po.evFor(st)
	for _, a := range ev.Acc {
		if a.Loc.Key == locKey(p) {
			ev.Enable = en(a.RV)
			st.Assume(ev.Enable)
		}
	}
	return true, nil
}


func (po *PO) ClassSummary() string {
	var sb strings.Builder
	for _, l := range sortedLocs(po.Locs) {
		if l.W == -1 && len(l.Classes) > 2 {
			fmt.Fprintf(&sb, "%s:%d ", l.Name, len(l.Classes))
		}
	}
	return sb.String()
}


// deferredIsSite: a deferred call that is executed directly as an event (sync/atomic on a
// shared location, harness intrinsics).
func (po *PO) deferredIsSite(st *State, d deferRec) bool {
	fv, ok := d.fn.(Func)
	if !ok || fv.Fn == nil {
		return false
	}
	name := fv.Fn.String()
	if strings.HasPrefix(name, "sync/atomic.") || strings.HasPrefix(name, "(*sync/atomic.Value).") {
		if len(d.args) > 0 {
			if p, ok := d.args[0].(Ptr); ok {
				if strings.HasPrefix(name, "(*sync/atomic.Value).") {
					p = p.sub(0)
				}
				return po.sharedAtomic(st, p)
			}
		}
		return false
	}
	if name == "(*sync.Mutex).Lock" || name == "(*sync.Mutex).Unlock" {
		if p, ok := d.args[0].(Ptr); ok {
			return po.sharedAtomic(st, p.sub(0))
		}
	}
	return poIntrinsicSites[fv.Fn.Name()]
}
