package sym

import (
	"fmt"
	"go/token"
	"go/types"
	"strings"

	"golang.org/x/tools/go/ssa"

	"verif/engine/smt"
)

func (r *Run) builtin(st *State, name string, args []Value, c *ssa.CallCommon, pos token.Pos) (Value, error) {
	switch name {
	case "len":
		switch x := args[0].(type) {
		case Slice:
			return x.Len, nil
		case GSlice:
			return smt.BV(uint64(x.Len), 64), nil
		case Str:
			return x.Len, nil
		case Chan:
			if x.ID == 0 {
				return zero64, nil
			}
			if h, ok := st.Hook.(LenHook); ok && st.Hook != nil {
				if v, done := h.ChanLen(st, x, pos); done {
					return v, nil
				}
			}
			return smt.BV(uint64(len(st.Heap.Get(x.ID).Buf)), 64), nil
		case Array:
			return smt.BV(uint64(len(x.E)), 64), nil
		case Ptr:
			if c != nil {
				if at, ok := c.Args[0].Type().Underlying().(*types.Pointer).Elem().Underlying().(*types.Array); ok {
					return smt.BV(uint64(at.Len()), 64), nil
				}
			}
		case Opaque:
			return Opaque{T: types.Typ[types.Int], Why: x.Why}, nil
		}
		return nil, unknownf("len of %T", args[0])
	case "cap":
		switch x := args[0].(type) {
		case Slice:
			return x.Cap, nil
		case GSlice:
			return smt.BV(uint64(x.Cap), 64), nil
		case Chan:
			if x.ID == 0 {
				return zero64, nil
			}
			return smt.BV(uint64(st.Heap.Get(x.ID).ChanCap), 64), nil
		}
		return nil, unknownf("cap of %T", args[0])
	case "append":
		return r.appendOp(st, args, pos)
	case "copy":
		return r.copyOp(st, args, pos)
	case "close":
		if st.Hook != nil {
			if h, ok := st.Hook.(CloseHook); ok {
				if done, err := h.CloseChan(st, args[0], pos); done || err != nil {
					return Tuple{}, err
				}
			}
		}
		o, err := r.chanObj(st, args[0])
		if err != nil {
			return nil, err
		}
		if o.Closed {
			return nil, r.startPanicV(st, "close of closed channel", pos)
		}
		n := *o
		n.Closed = true
		st.Heap.Put(&n)
		return Tuple{}, nil
	case "recover":
		if st.Panic != nil {
			v := st.Panic.Val
			st.Panic = nil
			return v, nil
		}
		return Iface{}, nil
	case "print", "println":
		return Tuple{}, nil
	case "ssa:wrapnilchk":
		if p, ok := args[0].(Ptr); ok && p.ID == 0 {
			return nil, r.startPanicV(st, "value method called using nil pointer", pos)
		}
		return args[0], nil
	}
	return nil, unknownf("builtin %s", name)
}

type LenHook interface {
	ChanLen(st *State, c Chan, pos token.Pos) (Value, bool)
}
type CloseHook interface {
	CloseChan(st *State, c Value, pos token.Pos) (bool, error)
}

// startPanicV adapts startPanic for value-returning contexts: when unwinding continues in
// a deferred frame it reports errUnwound so the caller stops processing the instruction.
func (r *Run) startPanicV(st *State, msg string, pos token.Pos) error {
	err := r.startPanic(st, msg, pos)
	if err == nil {
		return errUnwound
	}
	return err
}

func minT(a, b *smt.Term) *smt.Term { return smt.Ite(smt.SLt(a, b), a, b) }

func (r *Run) bytesOf(st *State, v Value) (id int, off, ln *smt.Term, content *ByteFn, ok bool) {
	switch x := v.(type) {
	case Slice:
		if x.ID == 0 {
			return 0, zero64, zero64, &ByteFn{kind: bkZero}, true
		}
		return x.ID, x.Off, x.Len, st.Heap.Get(x.ID).Content, true
	case Str:
		i, o := r.strBlock(st, x)
		return i, o, x.Len, st.Heap.Get(i).Content, true
	}
	return 0, nil, nil, nil, false
}

func (r *Run) copyOp(st *State, args []Value, pos token.Pos) (Value, error) {
	switch d := args[0].(type) {
	case Slice:
		_, sOff, sLen, sC, ok := r.bytesOf(st, args[1])
		if !ok {
			return nil, unknownf("copy from %T", args[1])
		}
		n := minT(d.Len, sLen)
		if d.ID == 0 {
			return zero64, nil
		}
		o := st.Heap.Get(d.ID)
		if o.Tag == "const" {
			return nil, unknownf("copy into constant block")
		}
		nb := *o
		nb.Content = o.Content.copyIn(d.Off, n, sC, sOff)
		st.Heap.Put(&nb)
		r.noteWrite(st, d.ID, d.Off, n, pos)
		return n, nil
	case GSlice:
		s, ok := args[1].(GSlice)
		if !ok {
			return nil, unknownf("copy gslice from %T", args[1])
		}
		n := d.Len
		if s.Len < n {
			n = s.Len
		}
		vals := make([]Value, n)
		for i := 0; i < n; i++ {
			v, err := r.load(st, Ptr{ID: s.ID, Path: append(append([]int(nil), s.Path...), s.Off+i)}, nil, pos)
			if err != nil {
				return nil, err
			}
			vals[i] = v
		}
		for i := 0; i < n; i++ {
			if err := r.store(st, Ptr{ID: d.ID, Path: append(append([]int(nil), d.Path...), d.Off+i)}, vals[i], pos); err != nil {
				return nil, err
			}
		}
		return smt.BV(uint64(n), 64), nil
	}
	return nil, unknownf("copy into %T", args[0])
}

// noteWrite records writes into blocks tagged as caller-owned (ghost, C03).
func (r *Run) noteWrite(st *State, id int, off, n *smt.Term, pos token.Pos) {
	o := st.Heap.Get(id)
	if o == nil {
		return
	}
	if strings.HasPrefix(o.Tag, "caller") || o.Tag == "const" {
		key := fmt.Sprintf("wrote:%d", id)
		old := smt.False
		if v, ok := st.Ghost[key]; ok {
			old = v.(*smt.Term)
		}
		st.Ghost[key] = smt.Or(old, smt.SLt(zero64, n))
	}
}

func (r *Run) appendOp(st *State, args []Value, pos token.Pos) (Value, error) {
	switch d := args[0].(type) {
	case Slice:
		_, sOff, sLen, sC, ok := r.bytesOf(st, args[1])
		if !ok {
			if g, isG := args[1].(GSlice); isG && g.Len == 0 {
				return d, nil
			}
			return nil, unknownf("append bytes from %T", args[1])
		}
		if sLen.IsConst() && sLen.C == 0 {
			return d, nil
		}
		newLen := smt.Add(d.Len, sLen)
		fits := smt.ULe(newLen, d.Cap)
		if d.ID == 0 {
			fits = smt.False
		}
		doInPlace := func(s *State) Value {
			o := s.Heap.Get(d.ID)
			nb := *o
			nb.Content = o.Content.copyIn(smt.Add(d.Off, d.Len), sLen, sC, sOff)
			s.Heap.Put(&nb)
			r.noteWrite(s, d.ID, smt.Add(d.Off, d.Len), sLen, pos)
			return Slice{ID: d.ID, Off: d.Off, Len: newLen, Cap: d.Cap}
		}
		doRealloc := func(s *State) Value {
			nc := smt.Var(r.Eng.Fresh("appcap"), 64)
			s.Assume(smt.And(smt.ULe(newLen, nc), smt.ULe(nc, smt.BV(1<<41, 64))))
			content := &ByteFn{kind: bkZero}
			if d.ID != 0 {
				content = content.copyIn(zero64, d.Len, s.Heap.Get(d.ID).Content, d.Off)
			}
			content = content.copyIn(d.Len, sLen, sC, sOff)
			b := s.NewBlock(nc, content, "append")
			return Slice{ID: b.ID, Off: zero64, Len: newLen, Cap: nc}
		}
		if fits.IsTrue() {
			return doInPlace(st), nil
		}
		if fits.IsFalse() {
			return doRealloc(st), nil
		}
		ft := r.sat(st, fits)
		ff := r.sat(st, smt.Not(fits))
		if ft != smt.Unsat && ff != smt.Unsat {
			// fork: other state re-executes with the extra assumption
			o := st.Fork()
			o.Assume(smt.Not(fits))
			r.work = append(r.work, o)
			st.Assume(fits)
			return doInPlace(st), nil
		}
		if ft != smt.Unsat {
			st.Assume(fits)
			return doInPlace(st), nil
		}
		st.Assume(smt.Not(fits))
		return doRealloc(st), nil
	case GSlice:
		var add []Value
		switch s := args[1].(type) {
		case GSlice:
			for i := 0; i < s.Len; i++ {
				v, err := r.load(st, Ptr{ID: s.ID, Path: append(append([]int(nil), s.Path...), s.Off+i)}, nil, pos)
				if err != nil {
					return nil, err
				}
				add = append(add, v)
			}
		default:
			return nil, unknownf("append from %T", args[1])
		}
		if len(add) == 0 {
			return d, nil
		}
		if d.ID != 0 && d.Len+len(add) <= d.Cap {
			for i, v := range add {
				if err := r.store(st, Ptr{ID: d.ID, Path: append(append([]int(nil), d.Path...), d.Off+d.Len+i)}, v, pos); err != nil {
					return nil, err
				}
			}
			return GSlice{ID: d.ID, Path: d.Path, Off: d.Off, Len: d.Len + len(add), Cap: d.Cap}, nil
		}
		// reallocate: new capacity = max(2*cap, needed)
		nc := d.Cap * 2
		if nc < d.Len+len(add) {
			nc = d.Len + len(add)
		}
		e := make([]Value, nc)
		var z Value
		for i := 0; i < d.Len; i++ {
			v, err := r.load(st, Ptr{ID: d.ID, Path: append(append([]int(nil), d.Path...), d.Off+i)}, nil, pos)
			if err != nil {
				return nil, err
			}
			e[i] = v
		}
		for i, v := range add {
			e[d.Len+i] = v
		}
		z = zeroLike(add[0])
		for i := d.Len + len(add); i < nc; i++ {
			e[i] = z
		}
		o := st.NewObj(nil, Array{E: e}, st.pos(pos))
		return GSlice{ID: o.ID, Off: 0, Len: d.Len + len(add), Cap: nc}, nil
	}
	return nil, unknownf("append to %T", args[0])
}

func zeroLike(v Value) Value {
	switch x := v.(type) {
	case *smt.Term:
		if x.S == smt.Bool {
			return smt.False
		}
		return smt.BV(0, int(x.S))
	case Ptr:
		return Ptr{}
	case Slice:
		return Slice{Off: zero64, Len: zero64, Cap: zero64}
	case GSlice:
		return GSlice{}
	case Func:
		return Func{}
	case Iface:
		return Iface{}
	case Chan:
		return Chan{}
	case Str:
		e := ""
		return Str{Off: zero64, Len: zero64, Lit: &e}
	case Struct:
		f := make([]Value, len(x.F))
		for i := range f {
			f[i] = zeroLike(x.F[i])
		}
		return Struct{F: f}
	case Array:
		e := make([]Value, len(x.E))
		for i := range e {
			e[i] = zeroLike(x.E[i])
		}
		return Array{E: e}
	}
	return v
}
