package main

import (
	"encoding/json"
	"flag"
	"fmt"
	"os"
	"strings"

	"verif/engine/check"
)

// property -> harness file groups
var groups = map[string][]string{
	"C01": {"lb"}, "C02": {"lb"}, "C03": {"lb"}, "C16": {"lb", "rw"},
	"C04": {"lb", "conn", "slot", "io"}, "C11": {"poll"}, "C18": {"mgr"}, "C17": {"muxc", "c17"}, "C05": {"lb", "conn", "connsum"}, "C06": {"lb", "conn", "connsum"}, "C07": {"lb", "conn", "connsum"}, "C08": {"lb", "conn", "connsum"}, "C09": {"lb", "conn", "connsum"},
	"C12": {"lb", "conn", "closed"}, "C10": {"lb", "conn", "slot"}, "C15": {"lb", "conn", "fd"}, "C14": {"lb", "conn", "dial"}, "C13": {"lb", "conn", "server"}, "T00": {"po"}, "T01": {"po"}, "C19": {"lb", "conn", "connsum", "race"},
}

func main() {
	if len(os.Args) < 2 {
		fmt.Println("usage: gosym check -p <prop> -tier quick|thorough")
		os.Exit(2)
	}
	switch os.Args[1] {
	case "check":
		fs := flag.NewFlagSet("check", flag.ExitOnError)
		p := fs.String("p", "", "property id")
		tier := fs.String("tier", "quick", "quick|thorough")
		only := fs.String("only", "", "harness name filter")
		workers := fs.Int("j", 16, "workers")
		to := fs.Int("timeout", 30000, "per query timeout ms")
		dbg := fs.Bool("debug", false, "trace")
		norep := fs.Bool("noreplay", false, "skip native replay")
		verbose := fs.Bool("v", false, "per-job progress on stderr")
		prm := fs.String("param", "", "lo:hi restriction for parametrised harnesses")
		grp := fs.String("groups", "", "override harness groups (comma separated)")
		fs.Parse(os.Args[2:])
		if t := os.Getenv("VERIF_TIER"); t != "" && *tier == "" {
			*tier = t
		}
		g := groups[*p]
		if *grp != "" {
			g = strings.Split(*grp, ",")
		}
		o := check.Options{Verbose: *verbose}
		if *prm != "" {
			fmt.Sscanf(*prm, "%d:%d", &o.PLo, &o.PHi)
			o.PSet = true
		}
		os.Exit(check.RunProperty(check.Options{Verbose: o.Verbose, PLo: o.PLo, PHi: o.PHi, PSet: o.PSet, Prop: *p, Tier: *tier, Groups: g, Workers: *workers, TimeoutMs: *to, Only: *only, Debug: *dbg, NoReplay: *norep}))
	}
	if os.Args[1] == "replay" && len(os.Args) >= 3 {
		// gosym replay <file written next to a VIOLATION line>: decide the recorded harness
		// instance again on /repo's current tree (symbolic run of that instance + counterexample
		// replay); exit 1 and a VIOLATION line if the recorded assertion fails again.
		b, err := os.ReadFile(os.Args[2])
		if err != nil {
			fmt.Println("replay:", err)
			os.Exit(2)
		}
		var rec struct {
			Property string `json:"property"`
			Harness  string `json:"harness"`
			HasParam bool   `json:"has_param"`
			Param    int    `json:"param"`
			Label    string `json:"label"`
		}
		if err := json.Unmarshal(b, &rec); err != nil || rec.Property == "" || rec.Harness == "" {
			fmt.Println("replay: not a replay file")
			os.Exit(2)
		}
		o := check.Options{Prop: rec.Property, Tier: "thorough", Groups: groups[rec.Property], Workers: 16, TimeoutMs: 30000,
			Only: rec.Harness, NoEvidence: true}
		if rec.HasParam {
			o.PLo, o.PHi, o.PSet = rec.Param, rec.Param, true
		}
		fmt.Printf("replaying %s of property %s (recorded assertion: %s)\n", rec.Harness, rec.Property, rec.Label)
		os.Exit(check.RunProperty(o))
	}
	fmt.Println("unknown command")
	os.Exit(2)
}
